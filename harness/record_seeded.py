import json, shutil, sys, pathlib
# id -> (caught_by, first_round, strengthening)
R = {
 "C01-A": ("C01", True, ""), 
 "C01-B": ("C01", False, "harness/cm.py renders the member m of head a through an abstract intermediate element k for half of the models (same substitution group)"),
 "C03-A": ("C03", True, ""),
 "C03-B": ("C03", False, "schema_xsd variants with attributeFormDefault=qualified and explicit form=unqualified/qualified on local attributes"),
 "C04-A": ("C04", True, ""),
 "C04-B": ("C04", False, "Validator.tla Double=TRUE: documents with two independent faults enter the pool; C04 runs all of them (the order and the multiset of errors matter)"),
 "C08-A": ("C08", True, ""), "C08-B": ("C08", True, ""),
 "C09-A": ("C09", False, "arrangement 'cleared and rebuilt' (add a namespace, clear(), build()) and identity constraints in the fingerprint"),
 "C09-B": ("C09", False, "fingerprint() now projects block/final/abstract/nillable controls of every global type and element; pickled-twice arrangement compared on them"),
 "C12-A": ("C12", True, ""),
 "C12-B": ("C12", False, "sandbox variant with implicit base_url (directory of the main schema) next to the explicit one"),
 "C16-A": ("C16", True, ""), "C16-B": ("C16", True, ""),
 "C17-A": ("C17", False, "Namespaces.tla Family 'ponly' (deeper documents re-binding one prefix at 3+ levels), encode failures matched by a complete witness list rather than a structural matcher"),
 "C17-B": ("C17", True, ""),
}
R2 = {
 "C02-A": ("C02", True, ""), "C02-B": ("C02", True, ""),
 "C05-A": ("C05", False, "Converters.tla v2: union-with-pattern element and attribute; every scalar slot of the decoded data replaced by a catalogue of 19 typed values and encoded in strict mode, the result judged by the spec's Valid"),
 "C05-B": ("C05", False, "Converters.tla v2: 0-2 repeated list-valued children (the name-keyed conventions return a list of lists)"),
 "C06-A": ("C06", False, "lazy depths 2 and 3 judged on verdict and errors (with paths); identity constraints declared on the intermediate element (Identity.tla Level inner)"),
 "C06-B": ("C06", False, "same strengthening as C06-A (lazy depth beyond the document depth, root-level key references)"),
 "C07-A": ("C07", True, ""),
 "C07-B": ("C07", False, "Derivation.tla mode fixedws: fixed values against the whiteSpace facet of integer / token / normalizedString / string, plain and as simple content"),
 "C10-A": ("C10", False, "operation decode(validation='skip'); pool schemas with user-defined facet chains; pair-complete histories (every ordered pair of documents as consecutive calls)"),
 "C10-B": ("C10", False, "pool schemas with unions of overlapping member types; pair-complete histories"),
 "C11-A": ("C11", False, "Lazy.tla settings in which a LAZY load exceeds MaxElems (the element limit does not apply to lazy resources)"),
 "C11-B": ("C11", False, "ill-typed values in identity-constraint fields (key / unique / keyref over int, decimal, date, boolean) x 6 entry points"),
 "C13-A": ("C13", True, ""),
 "C13-B": ("C13", False, "Defuse.tla localities extended to data supplied with a base_url (channels text@remote, bytes@remote, bytesio@remote, text@local, bytesio@local)"),
 "C14-A": ("C14", False, "AttrRestriction.tla: (base, derived) pairs of attribute uses and wildcards, inclusion decided over the attribute-set space"),
 "C14-B": ("C14", False, "ContentModel.tla family RestrA: xs:all groups of 2-3 elements under the edit operators"),
 "C15-A": ("C15", False, "ContentModel.tla family Mid3: sequences leaf, nested group, leaf"),
 "C15-B": ("C15", False, "ContentModel.tla family LeafVarF: a substitution head whose member lives in a foreign namespace (Members(f) = {f, o}) against wildcards"),
 "C18-A": ("C18", False, "scheduler: threads reach build() at seeded arrival times spread over the measured duration of an undisturbed build (before: every thread queued on the lock early, the final phase was never raced); caught by Trace_Threads (fast path before the flag)"),
 "C18-B": ("C18", False, "XSD 1.1 schema with assertion facets / complex-type assertions validated with different documents per thread"),
 "C19-A": ("C19", True, ""),
 "C19-B": ("C19", False, "Validator.tla: strict wildcard of another namespace in item, deviation unknownext (a child without global declaration)"),
 "C20-A": ("C20", False, "identity-constraint documents (Identity.tla, constraint on the root or on the intermediate element) under 5 path selections"),
 "C20-B": ("C20", False, "global declarations that share names with local ones in the Validator schema; wildcard-terminated paths (.../*); also caught by C06 (lazy)"),
}
R3 = {   # round 3: source files mutA / mutB of the worktree, recorded as <id>-C / <id>-D
 "C01-C": ("C01", False, "ContentModel.tla family Zero: a prohibited group (maxOccurs=0) as first particle, rendered in element-only and in mixed complex types (exposed and repaired F-C01-zero on the way)"),
 "C01-D": ("C01", True, ""),
 "C03-C": ("C03", True, ""), "C03-D": ("C03", True, ""),
 "C04-C": ("C04", False, "Validator.tla: child memo with mixed content and a fixed value, deviation badmemo (two-fault pool documents are all judged by C04)"),
 "C04-D": ("C04", False, "AttrDefs.tla name nU (target namespace, no global declaration); the core wildcard cases of the attribute pool are always judged by C04 (also caught by C03)"),
 "C05-C": ("C05", False, "Converters.tla: element alt whose XSD 1.1 type alternative reads a boolean attribute; C05 runs both schema versions"),
 "C05-D": ("C05", True, ""),
 "C08-C": ("C08", False, "XSD 1.1 rows typed by a type alternative (fields untyped in the declared type)"),
 "C08-D": ("C08", True, ""),
 "C09-C": ("C09", False, "XSD 1.1 default attribute group placed anywhere among the documents; the quick stride was a multiple of 3, so the quick tier never split the declarations over several documents - now coprime"),
 "C09-D": ("C09", True, ""),
 "C12-C": ("C12", True, ""), "C12-D": ("C12", True, ""),
 "C16-C": ("C16", False, "chains replayed with operands from a schema with another target namespace (exposed F-C16-d, repaired, and F-C16-cross, witness-listed)"),
 "C16-D": ("C16", True, ""),
 "C17-C": ("C17", True, ""), "C17-D": ("C17", True, ""),
 "C19-C": ("C19", True, ""),
 "C19-D": ("C19", False, "documents as text with namespaces declared on inner elements; every error path resolved with the namespace map the error itself carries"),
}
R4 = {   # round 4: source files mutA / mutB of the worktree, recorded as <id>-C / <id>-D
 "C02-C": ("C02", False, "SimpleTypes.tla: totalDigits / fractionDigits over ALL decimal class words of length <= 5 (every shape of zero, missing integer part)"),
 "C02-D": ("C02", False, "SimpleTypes.tla: whiteSpace x length-family / enumeration facets on xs:string / normalizedString / token over all words on letter / space / tab, in one or two derivation steps"),
 "C06-C": ("C06", True, ""), "C06-D": ("C06", True, ""),
 "C07-C": ("C07", True, ""),
 "C07-D": ("C07", False, "Derivation.tla mode alt: tests on an own and on an INHERITED attribute (own attribute overriding), 11 alternative lists incl. not(@j) (exposed and repaired F-C07-b; the change was rebased on the repair)"),
 "C10-C": ("C10", False, "HistoryAlt.tla: histories over the type-alternative scenario with an inherited attribute; variant 'memo' (cache keyed by the own attributes) refuted by TLC and replayed (rebased on the repair of F-C07-b)"),
 "C10-D": ("C10", False, "HistoryAlt.tla variant 'residue' and operations aborted by an exception of the application's validation_hook / extra_validator in every history driver"),
 "C11-C": ("C11", True, ""), "C11-D": ("C11", True, ""),
 "C13-C": ("C13", True, ""),
 "C13-D": ("C13", False, "Defuse.tla: the encoding of the bytes (UTF-8, UTF-16 with byte order mark, ISO-8859-1) as a dimension that no rule may depend on"),
 "C14-C": ("C14", False, "ContentModel.tla family RestrW: a single element / wildcard particle replaced by a repeated choice / sequence around it (exposed and repaired F-C14-e, F-C14-f)"),
 "C14-D": ("C14", False, "ContentModel.tla family RestrW: 7 namespace constraints of a wildcard (##local, lists) exchanged for one another; symbols of a foreign and of no namespace"),
 "C15-C": ("C15", True, ""),
 "C15-D": ("C15", False, "ContentModel.tla family MultiHead: XSD 1.1 element that is a member of two substitution groups"),
 "C18-C": ("C18", True, ""), "C18-D": ("C18", True, ""),
 "C20-C": ("C20", False, "substitution-group members selected by explicit paths (Derivation.tla SubstPartialValid): get_element, verdict, errors and data"),
 "C20-D": ("C20", False, "xs:ID / xs:IDREF(S) documents of Identity.tla under selections that hold every row; partial validation from the document text"),
}
R5 = {   # round 5: source files mutA / mutB of the worktree, recorded as <id>-E / <id>-F
 "C01-E": ("C01", False, "ContentModel.tla family NestW: a wildcard nested in an inner group next to an element declaration of the outer group (XSD 1.1; witness list)"),
 "C01-F": ("C01", False, "ContentModel.tla family All11Q: xs:all members that must occur twice or more (XSD 1.1) in the quick tier"),
 "C03-E": ("C03", False, "AttrDefs.tla ValidUnderSimpleType / ValidUnderAnyType: every attribute set also on an element declared xs:anyType (or without type) that xsi:type retypes to the complex type or to xs:int"),
 "C03-F": ("C03", False, "the declarations rendered as a RESTRICTION of a base type that has only the widest wildcard (variants 8-15: groups, nested groups with the wildcard inside)"),
 "C04-E": ("C04", False, "Validator.tla: lax wildcard of lib admitting an undeclared wrapper with a declared element inside (deviations laxok / badinlax; exposed and repaired F-C06-p, extended F-C06-h / F-C20-b)"),
 "C04-F": ("C04", False, "documents carrying location hints to a decoy schema, the schema handed to the package-level functions as a path and as text"),
 "C05-E": ("C05", False, "Converters.tla: repeated group of optional particles (n?, l?)*, t? with distinguishable values (F-C05-e recorded)"),
 "C05-F": ("C05", False, "Converters.tla: list types restricted by minLength - int items (tags) and name tokens (@kws) (exposed and repaired F-C05-f; the change was rebased on the repair)"),
 "C08-E": ("C08", False, "XSD 1.1 rendering with xpathDefaultNamespace on xs:schema and unprefixed selector / field paths"),
 "C08-F": ("C08", True, ""),
 "C09-E": ("C09", False, "XSD 1.1 declarations placed anywhere among the documents: a wildcard with notQName=##defined"),
 "C09-F": ("C09", False, "XSD 1.1: two complex types whose content is a reference to the same named group, in which a wildcard precedes a competing element declaration"),
 "C12-E": ("C12", False, "Access.tla spellings climbabs / climburl / climbenc: absolute path / file URL / percent-encoded dots through the sandbox directory"),
 "C12-F": ("C12", False, "Access.tla main source 'textremote': the main schema as text with a remote base URL (a sandbox with a remote base admits nothing)"),
 "C16-E": ("C16", False, "two referenced attribute groups with wildcards in one definition, each also used on its own: the operands keep their denotations (Wildcards.tla emits them)"),
 "C16-F": ("C16", True, ""),
 "C17-E": ("C17", True, ""), "C17-F": ("C17", True, ""),
 "C19-E": ("C19", False, "Validator.tla: attributes typed by a pattern-restricted union and by the plain union, deviation baduc (a value no member type can read)"),
 "C19-F": ("C19", False, "the document as the lxml payload of an envelope element (not the top of its tree)"),
}
R6 = {   # round 6: one change per property (source mutA of /tmp/mut6/<id>), recorded as <id>-E
 "C02-E": ("C02", True, ""),
 "C06-E": ("C06", False, "identity-shallow documents: the key references of a root-level constraint as leaves directly under the root (above the streamed depth of lazy=2), the keys inside the chunks"),
 "C07-E": ("C07", True, ""),
 "C10-E": ("C10", False, "spec/HistoryDef.tla: identity fields read from DEFAULTS that depend on the dynamic type (D1 / D2), histories of two calls replayed on one schema object"),
 "C11-E": ("C11", True, ""),
 "C13-E": ("C13", False, "channels text@ftps / bytes@s3 / bytesio@https: data with a base URL of another non-local scheme (Defuse.tla: remote = every scheme that is not local)"),
 "C14-E": ("C14", False, "spec/ElemRestriction.tla: (base, derived) pairs of local element declarations (type x fixed/default x nillable), inclusion decided over text x xsi:nil"),
 "C15-E": ("C15", False, "ContentModel.tla family WildPair (XSD 1.1): namespace lists and notNamespace negations side by side, with a third namespace that no constraint names; was caught by C16 (is_overlap against the set reading) before"),
 "C18-E": ("C18", True, ""),
 "C20-E": ("C20", True, ""),
}
SRC = {}
if len(sys.argv) > 1 and sys.argv[1] == "2":
    R = R2
if len(sys.argv) > 1 and sys.argv[1] == "3":
    R = R3
    SRC = {k: k[:-1] + {"C": "A", "D": "B"}[k[-1]] for k in R3}
if len(sys.argv) > 1 and sys.argv[1] == "4":
    R = R4
    SRC = {k: k[:-1] + {"C": "A", "D": "B"}[k[-1]] for k in R4}
if len(sys.argv) > 1 and sys.argv[1] == "5":
    R = R5
    SRC = {k: k[:-1] + {"E": "A", "F": "B"}[k[-1]] for k in R5}
ROOT = "/tmp/mut"
if len(sys.argv) > 1 and sys.argv[1] == "6":
    R = R6
    SRC = {k: k[:-1] + "A" for k in R6}
    ROOT = "/tmp/mut6"
for mid, (chk, first, how) in R.items():
    pid, v = SRC.get(mid, mid).split("-")
    src = pathlib.Path(f"{ROOT}/{pid}/out")
    dst = pathlib.Path(f"/verif/seeded/{mid}"); dst.mkdir(parents=True, exist_ok=True)
    shutil.copy(src / f"mut{v}.diff", dst / "patch.diff")
    shutil.copy(src / f"demo{v}.py", dst / "demo.py")
    note = (src / f"note{v}.txt").read_text()
    prop = next(json.loads(l) for l in open("/verif/properties.jsonl") if json.loads(l)["id"] == pid)
    meta = {
        "property": pid,
        "origin": "fresh sub-agent given only the property text and a scratch worktree of /repo",
        "needs_to_manifest": note.strip(),
        "confirmed": {
            "ran": [f"harness/confirm_mutant.sh <worktree> seeded/{mid}/patch.diff seeded/{mid}/demo.py",
                    f"harness/try_mutant.sh <worktree> seeded/{mid}/patch.diff {chk}"],
            "demo_clean_tree": "passes (rc 0)",
            "demo_with_change": "reports the behaviour described in needs_to_manifest",
            "repo_suite_with_change": "1528/1528 of BASELINE.json stable_pass still pass",
        },
        "detected_by": f"./check {chk} --tier quick (exit 1 with VIOLATION lines)",
        "detected_in_first_round": first,
        "strengthening": how,
    }
    (dst / "meta.json").write_text(json.dumps(meta, indent=1) + "\n")
print("ok")
