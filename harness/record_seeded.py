import json, shutil, sys, pathlib
# id -> (caught_by, first_round, strengthening)
R = {
 "C01-A": ("C01", True, ""), 
 "C01-B": ("C01", False, "harness/cm.py renders the member m of head a through an abstract intermediate element k for half of the models (same substitution group)"),
 "C03-A": ("C03", True, ""),
 "C03-B": ("C03", False, "schema_xsd variants with attributeFormDefault=qualified and explicit form=unqualified/qualified on local attributes"),
 "C04-A": ("C04", True, ""),
 "C04-B": ("C04", False, "Validator.tla Double=TRUE: documents with two independent faults enter the pool; C04 runs all of them (the order and the multiset of errors matter)"),
 "C08-A": ("C08", True, ""), "C08-B": ("C08", True, ""),
 "C09-A": ("C09", False, "arrangement 'cleared and rebuilt' (add a namespace, clear(), build()) and identity constraints in the fingerprint"),
 "C09-B": ("C09", False, "fingerprint() now projects block/final/abstract/nillable controls of every global type and element; pickled-twice arrangement compared on them"),
 "C12-A": ("C12", True, ""),
 "C12-B": ("C12", False, "sandbox variant with implicit base_url (directory of the main schema) next to the explicit one"),
 "C16-A": ("C16", True, ""), "C16-B": ("C16", True, ""),
 "C17-A": ("C17", False, "Namespaces.tla Family 'ponly' (deeper documents re-binding one prefix at 3+ levels), encode failures matched by a complete witness list rather than a structural matcher"),
 "C17-B": ("C17", True, ""),
}
for mid, (chk, first, how) in R.items():
    pid, v = mid.split("-")
    src = pathlib.Path(f"/tmp/mut/{pid}/out")
    dst = pathlib.Path(f"/verif/seeded/{mid}"); dst.mkdir(parents=True, exist_ok=True)
    shutil.copy(src / f"mut{v}.diff", dst / "patch.diff")
    shutil.copy(src / f"demo{v}.py", dst / "demo.py")
    note = (src / f"note{v}.txt").read_text()
    prop = next(json.loads(l) for l in open("/verif/properties.jsonl") if json.loads(l)["id"] == pid)
    meta = {
        "property": pid,
        "origin": "fresh sub-agent given only the property text and a scratch worktree of /repo",
        "needs_to_manifest": note.strip(),
        "confirmed": {
            "ran": [f"harness/confirm_mutant.sh <worktree> seeded/{mid}/patch.diff seeded/{mid}/demo.py",
                    f"harness/try_mutant.sh <worktree> seeded/{mid}/patch.diff {chk}"],
            "demo_clean_tree": "passes (rc 0)",
            "demo_with_change": "reports the behaviour described in needs_to_manifest",
            "repo_suite_with_change": "1528/1528 of BASELINE.json stable_pass still pass",
        },
        "detected_by": f"./check {chk} --tier quick (exit 1 with VIOLATION lines)",
        "detected_in_first_round": first,
        "strengthening": how,
    }
    (dst / "meta.json").write_text(json.dumps(meta, indent=1) + "\n")
print("ok")
