"""A pool of (schema sources, instance document, spec verdict) cases drawn from the specification
modules through small TLC runs.  Used by the properties that quantify over "documents of all
fault classes" (C04 C06 C10 C11 C18 C19 C20): the pool is the generator, the property's own spec is
the judge."""
from __future__ import annotations

import json

from harness import cm


def _cm_cases(ctx, stride, maxlen):
    from checks import c01
    cls, words = c01.tlc_universe(ctx, "1.0", "Depth1", ["a", "b"], maxlen, "pool-cm", workers=4)
    out = []
    for i, (k, recs) in enumerate(sorted(words.items())):
        if i % stride or cls[k]["upa"]:
            continue
        m = json.loads(k)
        xsd = cm.model_xsd(m)
        for r in recs:
            out.append({"origin": "content-model", "xsds": [xsd], "xml": cm.word_xml(r["w"]),
                        "spec_valid": r["acc"], "about": f"{cm.model_str(m)} on {''.join(r['w'])}",
                        "strong": cls[k]["strong"]})
    return out


def _attr_cases(ctx, stride):
    from checks import c03
    r = ctx.tlc("Attributes", "Attributes.cfg", constants={"Small": "TRUE"}, tag="pool-attr", workers=4)
    out = []
    for i, rec in enumerate(r.json_records()):
        # the core of the wildcard semantics is always in: no declarations, the widest constraint, ONE attribute
        core = (rec["d0"]["use"] == "none" and rec["dT"]["use"] == "none" and rec["w"]["c"] == "any"
                and sum(1 for v in rec["inst"].values() if v != "absent") == 1)
        if i % stride and not core:
            continue
        if c03.known(rec, "rejects-valid") or c03.known(rec, "accepts-invalid") or c03.known(rec, "decoded"):
            continue
        out.append({"origin": "attributes-core" if core else "attributes",
                    "xsds": [c03.schema_xsd(rec["d0"], rec["dT"], rec["w"], i % 8),
                                                     c03.XSD_A],
                    "xml": c03.instance_xml(rec["inst"]), "spec_valid": rec["valid"],
                    "about": f"attrs {rec['inst']}"})
    return out


def _deriv_cases(ctx, stride):
    from checks import c07
    r = ctx.tlc("Derivation", "Derivation.cfg", constants={"Mode": '"xsitype"', "Small": "TRUE"},
                tag="pool-deriv", workers=4)
    out = []
    for i, rec in enumerate(r.json_records()):
        if i % stride:
            continue
        out.append({"origin": "derivation", "xsds": [c07.xsd_xsitype(rec["cfg"], rec["types"])],
                    "xml": c07.xml_xsitype(rec["inst"], rec["word"]), "spec_valid": rec["valid"],
                    "about": f"xsi:type {rec['inst']}"})
    return out


def _ident_cases(ctx, stride):
    from checks import c08
    consts = {"NF": 1, "KeyKind": '"key"', "Level": '"inner"', "MaxRows": 3, "MaxScopes": 2,
              "RowKinds": '{"k", "f", "i", "p"}', "IdVer": '"1.0"'}
    r = ctx.tlc("Identity", "Identity.cfg", constants=consts, tag="pool-ident", workers=4)
    out = []
    for i, rec in enumerate(r.json_records()):
        if i % stride:
            continue
        out.append({"origin": "identity",
                    "xsds": [c08.schema_xsd(rec["nf"], rec["kind"], rec["level"], "integer", "attr", "child")],
                    "xml": c08.doc_xml(rec["doc"], "integer", "attr"), "spec_valid": not rec["kinds"],
                    "about": f"identity {rec['doc']}"})
    return out


def _validator_cases(ctx, stride):
    """Single- and double-fault documents of spec/Validator.tla (two faults: the ORDER of errors matters)."""
    from harness import vdoc
    out = []
    for double, st in (("FALSE", stride), ("TRUE", stride * 12)):
        r = ctx.tlc("Validator", "Validator.cfg", constants={"MaxItems": 2, "Double": double},
                    tag=f"pool-validator-{double}", workers=4)
        for i, rec in enumerate(r.json_records()):
            if i % st:
                continue
            out.append({"origin": "validator2" if double == "TRUE" else "validator", "xsds": [vdoc.XSD],
                        "xml": vdoc.render(rec["nodes"]), "spec_valid": rec["valid"],
                        "about": f"validator {rec['fault']} {rec['fault2']}"})
    return out


def _simple_cases(ctx, stride):
    """User-defined simple types of spec/SimpleTypes.tla: two-level facet chains over xs:integer and unions
    with overlapping member types, one value per document."""
    import collections
    from checks import c02
    t = ctx.tlc("ST_Tables", cfg_text="SPECIFICATION Spec\nCHECK_DEADLOCK FALSE\n", workers=1,
                constants={"MaxLen": 0, "Kinds": '{"decimal"}'}, tag="pool-simple")
    tables = {x["table"]: x["rows"] for x in t.json_records()}
    out = []
    by = collections.defaultdict(list)
    for row in tables["facets"]:
        by[json.dumps([row["f1"], row["f2"]], sort_keys=True)].append(row)
    for i, (k, rows) in enumerate(sorted(by.items())):
        if i % stride:
            continue
        f1, f2 = json.loads(k)
        xsd = (f'<xs:schema xmlns:xs="{cm.XS}"><xs:simpleType name="L1"><xs:restriction base="xs:integer">'
               f'{c02.facet_xml(f1)}</xs:restriction></xs:simpleType><xs:simpleType name="L2">'
               f'<xs:restriction base="L1">{c02.facet_xml(f2)}</xs:restriction></xs:simpleType>'
               '<xs:element name="v" type="L2"/></xs:schema>')
        if cm.build("1.0", xsd)[0] is None:
            continue
        for r in rows[::2]:
            out.append({"origin": "simple", "xsds": [xsd], "xml": f"<v>{r['v']}</v>", "spec_valid": r["ok"],
                        "about": f"facets {c02.facet_xml(f1)} / {c02.facet_xml(f2)} on {r['v']}"})
    member = {"pos": "xs:positiveInteger", "bool": "xs:boolean", "int": "xs:integer", "ab": "AB"}
    byu = collections.defaultdict(list)
    for r in tables["unions"]:
        byu[tuple(r["u"])].append(r)
    for u, rows in sorted(byu.items()):
        mt = " ".join(member[m] for m in u)
        xsd = (f'<xs:schema xmlns:xs="{cm.XS}"><xs:simpleType name="AB"><xs:restriction base="xs:string">'
               '<xs:enumeration value="a"/><xs:enumeration value="b"/></xs:restriction></xs:simpleType>'
               f'<xs:simpleType name="U"><xs:union memberTypes="{mt}"/></xs:simpleType>'
               '<xs:element name="v" type="U"/></xs:schema>')
        for r in rows:
            out.append({"origin": "simple", "xsds": [xsd], "xml": f"<v>{c02.esc(r['x'])}</v>",
                        "spec_valid": r["val"] != "invalid", "about": f"union({mt}) on {r['x']!r}"})
    return out


def inheritable_cases(ctx, stride, first_id=10 ** 6):
    """XSD 1.1 only (not part of build_pool): the single-fault documents of Validator.tla below a root that carries
    an inheritable attribute."""
    from harness import vdoc
    r = ctx.tlc("Validator", "Validator.cfg", constants={"MaxItems": 2, "Double": "FALSE"},
                tag="pool-validator11", workers=4)
    out = []
    for i, rec in enumerate(r.json_records()):
        if i % stride:
            continue
        out.append({"origin": "validator11", "xsds": [vdoc.XSD11], "only11": True, "id": first_id + len(out),
                    "xml": vdoc.render(rec["nodes"], root_attrs=' lang="en"'), "spec_valid": rec["valid"],
                    "about": f"validator/inheritable {rec['fault']}"})
    return out


def build_pool(ctx, scale=1):
    """-> list of cases; `scale` > 1 thins the pool out."""
    parts = ctx.parallel([
        lambda: _cm_cases(ctx, 37 * scale, 3),
        lambda: _attr_cases(ctx, 211 * scale),
        lambda: _deriv_cases(ctx, 257 * scale),
        lambda: _ident_cases(ctx, 17 * scale),
        lambda: _validator_cases(ctx, 23 * scale),
        lambda: _simple_cases(ctx, 7 * scale),
    ], width=6)
    pool = [c for p in parts for c in p]
    for i, c in enumerate(pool):
        c["id"] = i
    return pool


def load_schema(case, ver="1.0"):
    import warnings
    cls = cm.schema_class(ver)
    with warnings.catch_warnings():
        warnings.simplefilter("ignore")
        return cls(case["xsds"] if len(case["xsds"]) > 1 else case["xsds"][0])
