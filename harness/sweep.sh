#!/bin/sh
# Developer tool: run every registered quick check for a list of seeds; print one line per run.
cd "$(dirname "$0")/.."
for seed in "$@"; do
  for id in C01 C02 C03 C04 C05 C06 C07 C08 C09 C10 C11 C12 C13 C14 C15 C16 C17 C18 C19 C20; do
    out=$(VERIF_SEED=$seed ./check $id --tier quick 2>&1); rc=$?
    echo "seed=$seed $id rc=$rc $(echo "$out" | tail -1)"
    [ $rc -ne 0 ] && echo "$out" | grep -E "VIOLATION|MACHINERY" | head -5
  done
done
