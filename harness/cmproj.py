"""Projection of REAL schema components and REAL validations into the vocabulary of
spec/ContentModel.tla (obligation C of C01: traces recorded from the code are checked against the
specification by spec/Trace_ContentModel.tla).

For every element of an instance document that the implementation validated against a complex type
with a model group, one trace is recorded:

    m      the content model, as the tuples of ContentModel.tla; a leaf is ["x", [names], min, max] for an
           element particle (its own name and the members of its substitution group, read from the
           RAW substitutionGroup attributes of the global declarations) or ["X", [names], min, max] for
           a wildcard (denotation computed here from its RAW namespace / notNamespace / notQName
           attributes), both restricted to the alphabet of the trace;
    ev     one [t, p] per child element: its name and the particle (index path) the implementation
           handed it to, observed through the public validation_hook ([0] when the declaration that
           the hook saw is not a particle of this model: wildcards, substitutes);
    valid  whether the implementation reported NO content-model error for that element.

Names are abbreviated to n0, n1, ... per trace; one extra name that no particle declares stands for
"anything else".  Elements are skipped (and counted as such) when the governing type cannot be read
off the hook (xsi:type, 1.1 type alternatives, nil), when the type has open content, or when a child
names an abstract declaration (the implementation reports that on the child, XSD on the parent).
"""
from __future__ import annotations

XSD = "{http://www.w3.org/2001/XMLSchema}"
XSI = "{http://www.w3.org/2001/XMLSchema-instance}"
MAXKIDS = 24
INF = 99


def split_name(tag):
    if tag[:1] == "{":
        ns, _, local = tag[1:].partition("}")
        return ns, local
    return "", tag


class Skip(Exception):
    pass


class Projector:
    def __init__(self, schema):
        self.schema = schema
        self.ver = schema.XSD_VERSION
        self.heads = {}          # member expanded name -> set of head expanded names (raw attributes)
        self.globals = {}
        for name, decl in schema.maps.elements.items():
            if isinstance(decl, tuple):
                continue
            self.globals[name] = decl
            raw = decl.elem.get("substitutionGroup")
            if raw:
                hs = set()
                for q in raw.split():
                    try:
                        h = decl.schema.resolve_qname(q)
                    except Exception:
                        continue
                    hs.add(h)
                self.heads[name] = hs

    # -- substitution groups, from the raw attributes
    def members(self, head):
        """Expanded names that may stand for `head` (itself included), transitively."""
        decl = self.globals.get(head)
        out = {head}
        if decl is None:
            return out
        block = (decl.elem.get("block") or decl.schema.elem.get("blockDefault") or "").split()
        if "#all" in block or "substitution" in block:
            return out
        if block:
            raise Skip("head with a derivation block")     # membership depends on type derivation
        if (decl.type.elem is not None and (decl.type.elem.get("block") or "")) or \
                getattr(decl.type, "block", ""):
            raise Skip("head type with a block")
        todo = [head]
        while todo:
            h = todo.pop()
            for m, hs in self.heads.items():
                if h in hs and m not in out:
                    out.add(m)
                    todo.append(m)
        return out

    # -- wildcards, from the raw attributes
    def wildcard_admits(self, any_, tag, siblings):
        a = any_.elem.attrib
        tns = any_.target_namespace
        ns, _ = split_name(tag)
        if "notNamespace" in a:
            excl = {tns if x == "##targetNamespace" else "" if x == "##local" else x
                    for x in a["notNamespace"].split()}
            if ns in excl:
                return False
        else:
            spec = a.get("namespace", "##any").strip()
            if spec == "##any":
                pass
            elif spec == "##other":
                if ns == "" or ns == tns:
                    return False
            else:
                allowed = {tns if x == "##targetNamespace" else "" if x == "##local" else x
                           for x in spec.split()}
                if ns not in allowed:
                    return False
        for q in a.get("notQName", "").split():
            if q == "##defined":
                if tag in self.globals:
                    return False
            elif q == "##definedSibling":
                if tag in siblings:
                    return False
            else:
                try:
                    if any_.schema.resolve_qname(q) == tag:
                        return False
                except Exception:
                    raise Skip("unresolvable notQName")
        return True

    # -- model groups
    def project(self, group, alphabet):
        """-> (model tuple, {id(particle): index path})."""
        pids = {}
        siblings = set()

        def collect(g):
            for it in g:
                if hasattr(it, "model"):
                    collect(it)
                elif it.elem.tag == XSD + "element":
                    siblings.add(it.name)
        collect(group)

        def occurs(p):
            mn, mx = p.min_occurs, p.max_occurs
            mx = INF if mx is None or mx > MAXKIDS + 1 else mx
            if mn > MAXKIDS + 1:
                raise Skip("minOccurs beyond the trace bound")
            return mn, mx

        def walk(p, path):
            mn, mx = occurs(p)
            if hasattr(p, "model"):                      # XsdGroup
                kind = {"sequence": "s", "choice": "c", "all": "a"}[p.model]
                kids = [walk(k, path + [i + 1]) for i, k in enumerate(p)]
                if p.ref is not None:
                    kind = "s"                             # a group reference wraps the named group
                return [kind, kids, mn, mx]
            pids[id(p)] = path
            if p.elem.tag == XSD + "any":
                names = [alphabet[t] for t in alphabet if self.wildcard_admits(p, t, siblings)]
                return ["X", sorted(names), mn, mx]
            if p.elem.tag != XSD + "element":
                raise Skip(f"unknown particle {p.elem.tag}")
            if p.ref is not None or p.parent is None:
                ms = self.members(p.name)
            else:
                ms = {p.name}
            return ["x", sorted(alphabet[t] for t in ms if t in alphabet), mn, mx]

        return walk(group, []), pids


def record(schema, source, stats, lazy=False):
    """Validate `source` with `schema`; -> list of traces (dicts)."""
    import xmlschema
    from xmlschema.validators.exceptions import XMLSchemaChildrenValidationError
    res = source if isinstance(source, xmlschema.XMLResource) else xmlschema.XMLResource(source)
    seen = {}

    def hook(element, xsd_element):
        seen.setdefault(id(element), (element, xsd_element))
        return False

    errors = list(schema.iter_errors(res, validation_hook=hook))
    bad_parents = {id(e.elem) for e in errors if isinstance(e, XMLSchemaChildrenValidationError)}
    proj = Projector(schema)
    out = []
    for elem, decl in seen.values():
        kids = [c for c in elem if isinstance(c.tag, str)]
        try:
            if XSI + "type" in elem.attrib or XSI + "nil" in elem.attrib:
                raise Skip("xsi:type / xsi:nil")
            if getattr(decl, "alternatives", None):
                raise Skip("type alternatives")
            t = decl.type
            if not t.is_complex() or not t.has_complex_content():
                raise Skip("no model group")
            if getattr(t, "open_content", None) is not None:
                raise Skip("open content")
            if len(kids) > MAXKIDS:
                raise Skip("too many children")
            tags = []
            for c in kids:
                if c.tag not in tags:
                    tags.append(c.tag)
            for tg in tags:
                g = proj.globals.get(tg)
                if g is not None and g.elem.get("abstract") in ("true", "1"):
                    raise Skip("abstract child")
            alphabet = {tg: f"n{i}" for i, tg in enumerate(tags)}
            model, pids = proj.project(t.content, alphabet)
            ev = []
            for c in kids:
                cd = seen.get(id(c))
                p = pids.get(id(cd[1])) if cd is not None else None
                ev.append({"t": alphabet[c.tag], "p": p if p else [0]})
            out.append({"m": model, "ev": ev, "valid": id(elem) not in bad_parents,
                        "about": f"<{elem.tag}> of type {t.name or 'anonymous'}"})
            stats["recorded"] = stats.get("recorded", 0) + 1
        except Skip as s:
            k = "skipped: " + str(s)
            stats[k] = stats.get(k, 0) + 1
    return out
