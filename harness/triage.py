"""Developer aid: summarise replay files of a property (not used by any check)."""
import json, sys, glob, collections
pid = sys.argv[1]
groups = collections.defaultdict(list)
for f in glob.glob(f"/verif/replays/{pid}/*.json"):
    d = json.load(open(f))
    groups[d["what"].split(" (")[0][:90]].append(d["case"])
for k, v in sorted(groups.items(), key=lambda kv: -len(kv[1])):
    print(len(v), k)
    for c in v[: int(sys.argv[2]) if len(sys.argv) > 2 else 3]:
        print("    ", json.dumps(c, sort_keys=True)[:600])
