#!/bin/sh
# Developer tool: every recorded seeded change must still be caught by the quick check of its property.
# Works in a scratch worktree of /repo (never in /repo itself); usage: seeded_regression.sh [id ...]
wt=$(mktemp -d /tmp/seeded_wt.XXXXXX); rmdir "$wt"
git -C /repo worktree add -q --detach "$wt" HEAD || exit 2
cd /verif
ids="$@"; [ -z "$ids" ] && ids=$(ls seeded)
fail=0
for id in $ids; do
  prop=$(echo "$id" | cut -d- -f1)
  git -C "$wt" checkout -q -- xmlschema
  if ! git -C "$wt" apply "/verif/seeded/$id/patch.diff"; then echo "$id: patch does not apply"; fail=1; continue; fi
  out=$(VERIF_REPO=$wt PYTHONPATH=$wt /verif/check $prop --tier quick 2>&1); rc=$?
  n=$(echo "$out" | grep -c '^VIOLATION')
  if [ $rc -eq 1 ] && [ $n -gt 0 ]; then echo "$id: caught ($n violation lines)"; else echo "$id: MISSED rc=$rc"; fail=1; fi
done
git -C /repo worktree remove --force "$wt"
exit $fail
