#!/bin/sh
# Developer tool: run checks against a scratch worktree with a seeded change applied.
# usage: try_mutant.sh <worktree> <patch.diff> <check id>...
wt=$1; patch=$2; shift 2
git -C "$wt" checkout -q -- xmlschema 2>/dev/null
git -C "$wt" checkout -q --detach "$(git -C /repo rev-parse HEAD)"   # follow fix: commits in /repo
git -C "$wt" apply "$patch" || { echo "patch does not apply"; exit 2; }
for id in "$@"; do
  out=$(VERIF_REPO=$wt PYTHONPATH=$wt /verif/check $id --tier quick 2>&1); rc=$?
  echo "== $id rc=$rc: $(echo "$out" | grep -c VIOLATION) violation lines; $(echo "$out" | tail -1)"
  echo "$out" | grep VIOLATION | head -3 | cut -c1-260
done
git -C "$wt" checkout -q -- xmlschema
