"""Shared machinery of the checks: TLC runner, evidence, findings, replay files, sharding.

Exit codes of ./check: 0 held (KNOWN-FINDING lines allowed), 1 violation, 2 machinery failure.
"""
from __future__ import annotations

import hashlib
import json
import multiprocessing as mp
import os
import re
import shutil
import subprocess
import sys
import threading
import time
from pathlib import Path

VERIF = Path(__file__).resolve().parent.parent
SPEC = VERIF / "spec"
REPO = Path(os.environ.get("VERIF_REPO", "/repo"))
WORKROOT = VERIF / ".work"
GUARD = "XMLSCHEMA_VERIF_TRACE"
NCPU = min(16, os.cpu_count() or 1)

LEVEL = "model_checking"
_LOCK = threading.Lock()


class MachineryError(Exception):
    """Something in the verification machinery failed (never a property verdict)."""


class TlcResult:
    def __init__(self, out: str, wall: float):
        self.out = out
        self.wall = wall
        self.lines = out.splitlines()
        m = re.search(r"(\d+) states generated, (\d+) distinct states found", out)
        self.generated = int(m.group(1)) if m else 0
        self.distinct = int(m.group(2)) if m else 0
        m = re.search(r"depth of the complete state graph search is (\d+)", out)
        self.depth = int(m.group(1)) if m else 0
        self.ok = ("Model checking completed. No error has been found." in out
                   or "Finished in" in out and "Error:" not in out)
        self.invariant_violated = [m.group(1) for m in
                                   re.finditer(r"Invariant (\S+) is violated", out)]
        self.invariant_violated += [m.group(1) for m in
                                    re.finditer(r"Action property (\S+) is violated", out)]

    def json_records(self):
        """Records printed with PrintT(ToJson(x)) (one JSON string literal per line)."""
        recs = []
        for ln in self.lines:
            if ln.startswith('"{') or ln.startswith('"['):
                try:
                    recs.append(json.loads(json.loads(ln)))
                except ValueError as e:  # interleaved output
                    raise MachineryError(f"unparsable TLC record: {ln[:200]!r}: {e}")
        # TLC's workers print in a nondeterministic order: every stride / index-based choice downstream
        # must see the same sequence on every run
        recs.sort(key=lambda r: json.dumps(r, sort_keys=True))
        return recs

    def coverage_zero_actions(self):
        """Names of actions reported with 0 hits under -coverage."""
        zero = []
        for m in re.finditer(r"<(\w+) line [^>]*>: (\d+):(\d+)", self.out):
            if int(m.group(3)) == 0 and int(m.group(2)) == 0:
                zero.append(m.group(1))
        return zero


_ADDR = re.compile(r" at 0x[0-9a-fA-F]+")


def stable(text) -> str:
    """An error text without the parts that differ between two runs of the same program (object addresses)."""
    return _ADDR.sub("", str(text))


class Ctx:
    def __init__(self, pid: str, tier: str, seed: int, design_ref: str = ""):
        self.pid = pid
        self.tier = tier
        self.seed = seed
        self.t0 = time.time()
        self.work = WORKROOT / f"{pid}-{os.getpid()}"
        if self.work.exists():
            shutil.rmtree(self.work)
        self.work.mkdir(parents=True)
        self.violations: list[dict] = []
        self.known_hits: dict[str, int] = {}
        self.states = 0
        self.transitions = 0
        self.distinct = 0
        self.tlc_runs: list[dict] = []
        self.impl_traces = 0          # code->spec traces validated by TLC (obligation C)
        self.impl_replays = 0         # spec->code cases replayed on the implementation (B)
        self.evaluations = 0
        self.nontrivial = 0
        self.samples: list = []
        self.extra: dict = {}
        self.assumptions: list[str] = []
        self.exhaustive = False
        self.rule = ""
        self._findings = None
        self.replay_mode = False

    # ------------------------------------------------------------------ TLC
    def tlc(self, module: str, cfg: str | None = None, *, workers: int | str = NCPU,
            constants: dict | None = None, env: dict | None = None, timeout: int = 1800,
            extra_args: list[str] | None = None, expect_violation: bool = False,
            files: dict | None = None, count: bool = True, cfg_text: str | None = None,
            tag: str = "") -> TlcResult:
        """Run TLC on spec/<module>.tla with cfg (a file name in spec/ or literal cfg_text).

        The spec directory is copied to a private work dir so that generated MC files and metadir
        never touch the committed tree. `files` are extra files written next to the spec.
        """
        with _LOCK:
            self._nrun = getattr(self, "_nrun", 0) + 1
            run = self.work / f"tlc-{self._nrun}{('-' + tag) if tag else ''}"
            run.mkdir()
        for f in SPEC.glob("*.tla"):
            shutil.copy(f, run / f.name)
        for name, text in (files or {}).items():
            (run / name).write_text(text)
        if cfg_text is None:
            cfg_text = (SPEC / (cfg or module + ".cfg")).read_text()
        if constants:
            cfg_text += "\nCONSTANTS\n" + "\n".join(f"  {k} = {v}" for k, v in constants.items()) + "\n"
        (run / "run.cfg").write_text(cfg_text)
        cmd = ["java", "-XX:+UseParallelGC", "-Xmx6g",
               "-cp", "/opt/veriftools/tla/tla2tools.jar:/opt/veriftools/tla/CommunityModules-deps.jar",
               "tlc2.TLC", "-workers", str(workers), "-metadir", str(run / "meta"),
               "-noGenerateSpecTE", "-config", "run.cfg"] + (extra_args or []) + [module + ".tla"]
        e = dict(os.environ)
        e.update(env or {})
        t = time.time()
        try:
            p = subprocess.run(cmd, cwd=run, env=e, capture_output=True, text=True, timeout=timeout)
        except subprocess.TimeoutExpired:
            raise MachineryError(f"TLC timeout after {timeout}s on {module}")
        res = TlcResult(p.stdout + p.stderr, time.time() - t)
        (run / "out.txt").write_text(res.out)
        if count:
            self.states += res.distinct
            self.transitions += res.generated
        self.tlc_runs.append({"module": module, "tag": tag, "states": res.distinct,
                              "generated": res.generated, "wall_s": round(res.wall, 2)})
        if res.invariant_violated and not expect_violation:
            raise SpecViolation(module, res)
        if not res.invariant_violated and not res.ok:
            raise MachineryError(f"TLC failed on {module} ({tag}): see {run / 'out.txt'}\n"
                                 + "\n".join(res.lines[-25:]))
        shutil.rmtree(run / "meta", ignore_errors=True)
        return res

    def parallel(self, thunks, width=4):
        """Run independent TLC jobs (callables) concurrently; results in order."""
        from concurrent.futures import ThreadPoolExecutor
        with ThreadPoolExecutor(max_workers=width) as ex:
            futs = [ex.submit(t) for t in thunks]
            return [f.result() for f in futs]

    # -------------------------------------------------------------- verdicts
    def findings(self):
        if self._findings is None:
            f = VERIF / "known_findings.json"
            data = json.loads(f.read_text()) if f.exists() else {"findings": []}
            self._findings = [x for x in data["findings"]
                              if x.get("property") == self.pid and x.get("status") == "open"]
        return self._findings

    def report(self, case: dict, what: str, *, finding: str | None = None):
        """Record a disagreement between specification and implementation for `case`.

        `finding` is the id of the known finding whose matcher the caller has established for this
        case (matching is done by the check, precisely, never here by substring).
        """
        if finding is not None:
            if any(f["id"] == finding for f in self.findings()):
                self.known_hits[finding] = self.known_hits.get(finding, 0) + 1
                return
        key = hashlib.sha1(json.dumps(case, sort_keys=True, default=str).encode()).hexdigest()[:12]
        d = VERIF / "replays" / self.pid
        d.mkdir(parents=True, exist_ok=True)
        path = d / f"{key}.json"
        path.write_text(json.dumps({"property": self.pid, "what": what, "case": case},
                                   indent=1, sort_keys=True, default=str))
        self.violations.append({"what": what, "replay": str(path)})
        if len(self.violations) <= 25:
            print(f"VIOLATION property={self.pid} replay={path}  # {what}", flush=True)

    def sample(self, x, limit=4):
        if len(self.samples) < limit:
            self.samples.append(x)

    # -------------------------------------------------------------- sharding
    def apalache(self, module: str, init: str, inv: str, length: int, timeout: int = 900) -> None:
        """Bounded / inductive check with Apalache (symbolic): raises SpecViolation when the invariant fails."""
        run = self.work / f"apa-{len(self.tlc_runs)}"
        run.mkdir(parents=True, exist_ok=True)
        shutil.copy(VERIF / "spec" / f"{module}.tla", run / f"{module}.tla")
        cmd = ["apalache-mc", "check", f"--init={init}", f"--inv={inv}", f"--length={length}",
               f"--out-dir={run / 'out'}", f"{module}.tla"]
        t0 = time.time()
        try:
            p = subprocess.run(cmd, cwd=run, capture_output=True, text=True, timeout=timeout)
        except (subprocess.TimeoutExpired, FileNotFoundError) as e:
            raise MachineryError(f"apalache: {type(e).__name__} on {module}")
        out = p.stdout + p.stderr
        self.tlc_runs.append({"tool": "apalache", "module": module, "init": init, "inv": inv, "length": length,
                              "wall_s": round(time.time() - t0, 1), "ok": "EXITCODE: OK" in out})
        if "EXITCODE: OK" not in out:
            if "violat" in out.lower() or "EXITCODE: ERROR (12)" in out:
                raise SpecViolation(f"apalache: {inv} fails from {init} within {length} step(s) in {module}")
            raise MachineryError(f"apalache failed on {module}: {out[-400:]}")

    def pmap(self, func, items, chunks: int | None = None):
        """Apply func to each item in forked workers (the workers import xmlschema from /repo)."""
        items = list(items)
        if not items:
            return []
        n = min(NCPU, len(items))
        if n <= 1:
            return [func(x) for x in items]
        cs = max(1, len(items) // (n * (chunks or 8)))
        with mp.get_context("fork").Pool(n) as pool:
            return pool.map(func, items, chunksize=cs)

    # -------------------------------------------------------------- evidence
    def finish(self) -> int:
        for f in self.findings():
            n = self.known_hits.get(f["id"], 0)
            if n:
                print(f"KNOWN-FINDING: property={self.pid} {f['id']}: {f['what']} "
                      f"[{n} case(s) this run]", flush=True)
        if len(self.violations) > 25:
            print(f"... {len(self.violations) - 25} further violations not printed", flush=True)
        cov = {
            "states": self.states, "transitions": self.transitions,
            "traces_validated_against_impl": self.impl_traces + self.impl_replays,
            "spec_to_code_replays": self.impl_replays,
            "code_to_spec_traces": self.impl_traces,
            "evaluations": self.evaluations, "distinct_nontrivial": self.nontrivial,
            "rule": self.rule, "samples": self.samples or ["(no case sampled)"],
            "exhaustive": self.exhaustive, "tlc_runs": self.tlc_runs,
            "known_findings_reproduced": self.known_hits,
        }
        cov.update(self.extra)
        ev = {"property_id": self.pid, "tier": self.tier, "seed": self.seed, "level": LEVEL,
              "coverage": cov, "assumptions": self.assumptions,
              "wall_s": round(time.time() - self.t0, 2), "violations": len(self.violations)}
        if not self.replay_mode and "VERIF_REPO" not in os.environ:    # evidence is about /repo only
            (VERIF / "evidence").mkdir(exist_ok=True)
            (VERIF / "evidence" / f"{self.pid}.json").write_text(
                json.dumps(ev, indent=1, sort_keys=True, default=str))
        shutil.rmtree(self.work, ignore_errors=True)
        print(f"[{self.pid}] tier={self.tier} seed={self.seed} states={self.states} "
              f"replays={self.impl_replays} traces={self.impl_traces} "
              f"violations={len(self.violations)} known={sum(self.known_hits.values())} "
              f"wall={ev['wall_s']}s", flush=True)
        return 1 if self.violations else 0


class SpecViolation(MachineryError):
    """TLC found an invariant violation in the specification itself (design-level)."""

    def __init__(self, module, res: TlcResult):
        self.module = module
        self.res = res
        super().__init__(f"TLC reports {res.invariant_violated} violated in {module}:\n"
                         + "\n".join(res.lines[-40:]))


def tla(v) -> str:
    """Python value -> TLA+ expression text (tuples/lists -> sequences, dict -> record, sets)."""
    if isinstance(v, bool):
        return "TRUE" if v else "FALSE"
    if isinstance(v, int):
        return str(v)
    if isinstance(v, str):
        return json.dumps(v)
    if isinstance(v, (list, tuple)):
        return "<<" + ", ".join(tla(x) for x in v) + ">>"
    if isinstance(v, (set, frozenset)):
        return "{" + ", ".join(sorted(tla(x) for x in v)) + "}"
    if isinstance(v, dict):
        if not v:
            raise ValueError("empty record")
        return "[" + ", ".join(f"{k} |-> {tla(x)}" for k, x in v.items()) + "]"
    raise TypeError(type(v))
