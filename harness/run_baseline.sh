#!/bin/sh
# Runs the repository's suite with the guard OFF and compares with BASELINE.json's stable_pass list.
cd "${BASELINE_DIR:-/repo}" || exit 2   # BASELINE_DIR: a scratch worktree with a seeded change (development aid)
unset XMLSCHEMA_VERIF_TRACE XMLSCHEMA_VERIF_TRACE_FILE
OUT=$(mktemp -d)
/venv/bin/python -m pytest -q -p no:cacheprovider --timeout=900 --continue-on-collection-errors -n 16 --junitxml=$OUT/j.xml >$OUT/log 2>&1
/venv/bin/python - "$OUT/j.xml" <<'PY'
import json, sys, xml.etree.ElementTree as ET
base = set(json.load(open('/root/.vp/BASELINE.json'))['stable_pass'])
ok = set()
for tc in ET.parse(sys.argv[1]).getroot().iter('testcase'):
    if not any(c.tag in ('failure', 'error', 'skipped') for c in tc):
        ok.add(f"{tc.get('classname')}::{tc.get('name')}")
missing = sorted(base - ok)
print(f"baseline stable_pass={len(base)} passing_now={len(base & ok)} missing={len(missing)}")
# tests that share output files are flaky under xdist: re-run the missing ones serially
import subprocess
still = []
for m in missing:
    cls, name = m.split('::')
    mod, klass = cls.rsplit('.', 1)
    nodeid = mod.replace('.', '/') + '.py::' + klass + '::' + name
    r = subprocess.run(['/venv/bin/python', '-m', 'pytest', '-q', '-p', 'no:cacheprovider', nodeid],
                       capture_output=True, text=True)
    if r.returncode != 0:
        still.append(m)
for m in still[:40]:
    print("  NOT PASSING:", m)
print(f"after serial re-run of {len(missing)}: missing={len(still)}")
sys.exit(1 if still else 0)
PY
rc=$?
rm -rf "$OUT"
exit $rc
