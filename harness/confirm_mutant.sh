#!/bin/sh
# Developer tool: confirm a seeded change.  Shows that (1) the demonstration behaves differently with
# and without the change and (2) the repository's own suite still passes with the change applied.
# usage: confirm_mutant.sh <worktree> <patch.diff> <demo.py>
wt=$1; patch=$2; demo=$3
git -C "$wt" checkout -q -- xmlschema 2>/dev/null
git -C "$wt" checkout -q --detach "$(git -C /repo rev-parse HEAD)"   # follow fix: commits in /repo
cd "$wt" || exit 2
echo "--- demo on the clean tree"; PYTHONPATH=$wt /venv/bin/python "$demo" 2>&1 | tail -4; echo "rc=$?"
git -C "$wt" apply "$patch" || { echo "patch does not apply"; exit 2; }
echo "--- demo with the change"; PYTHONPATH=$wt /venv/bin/python "$demo" 2>&1 | tail -4
echo "--- repository suite with the change"; BASELINE_DIR=$wt /verif/harness/run_baseline.sh | tail -3
git -C "$wt" checkout -q -- xmlschema
