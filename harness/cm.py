"""Rendering of abstract content models (spec/ContentModel.tla tuples) to XSD / XML and drivers
for the implementation.  The rendering is the refinement mapping: it is kept dumb on purpose."""
from __future__ import annotations

import json
import warnings

INF = 99
XS = "http://www.w3.org/2001/XMLSchema"
TNS = "urn:T"
SYM_XML = {"o": '<o:o xmlns:o="urn:O"/>', "u": "<u/>", "z": '<z:z xmlns:z="urn:Z"/>'}
NOTNS = {"nO": "urn:O", "nT": "##targetNamespace", "nOl": "urn:O ##local"}      # XSD 1.1 notNamespace
WILD = {"any": "##any", "other": "##other", "tns": "##targetNamespace", "local": "##local",
        "tl": "##targetNamespace ##local", "oo": "urn:O", "ol": "urn:O ##local"}


def occ(mn, mx):
    s = ""
    if mn != 1:
        s += f' minOccurs="{mn}"'
    if mx != 1:
        s += ' maxOccurs="%s"' % ("unbounded" if mx >= INF else mx)
    return s


def pid_str(p):
    return "p" + "_".join(map(str, p)) if p else "p"


def particle_xsd(m, p, variant, groups_out):
    kind, x, mn, mx = m[:4]
    pid = pid_str(p)
    if kind == "e":
        typ = "xs:int" if len(m) > 4 and m[4] == "i" else "xs:string"
        return f'<xs:element name="{x}" type="{typ}" id="{pid}"{occ(mn, mx)}/>'
    if kind == "h":
        return f'<xs:element ref="t:{x}" id="{pid}"{occ(mn, mx)}/>'
    if kind == "w" and x in NOTNS:
        return f'<xs:any notNamespace="{NOTNS[x]}" processContents="lax" id="{pid}"{occ(mn, mx)}/>'
    if kind == "w":
        return f'<xs:any namespace="{WILD[x]}" processContents="lax" id="{pid}"{occ(mn, mx)}/>'
    tag = {"s": "sequence", "c": "choice", "a": "all"}[kind]
    inner = "".join(particle_xsd(k, list(p) + [i + 1], variant, groups_out) for i, k in enumerate(x))
    if variant == "groupref" and p:        # inner groups as references to named model groups
        name = "g" + pid
        groups_out.append(f'<xs:group name="{name}"><xs:{tag}>{inner}</xs:{tag}></xs:group>')
        return f'<xs:group ref="t:{name}" id="{pid}"{occ(mn, mx)}/>'
    return f'<xs:{tag} id="{pid}"{occ(mn, mx)}>{inner}</xs:{tag}>'


def uses(m, kind):
    if m[0] in "ehw":
        return m[0] == kind
    return any(uses(k, kind) for k in m[1])


def uses_head(m, name):
    if m[0] in "ehw":
        return m[0] == "h" and m[1] == name
    return any(uses_head(k, name) for k in m[1])


def model_xsd(m, variant="inline"):
    groups_out: list[str] = []
    mixed = ' mixed="true"' if variant == "mixed" else ""      # character data allowed: the element content is the same
    body = particle_xsd(m, [], "inline" if variant == "mixed" else variant, groups_out)
    glob = ""
    if uses_head(m, "a"):
        import zlib
        if zlib.crc32(mkey(m).encode()) % 2:
            glob = ('<xs:element name="a" type="xs:string"/>'
                    '<xs:element name="m" type="xs:string" substitutionGroup="t:a"/>')
        else:   # the same substitution group, m reached through an abstract intermediate member
            glob = ('<xs:element name="a" type="xs:string"/>'
                    '<xs:element name="k" type="xs:string" abstract="true" substitutionGroup="t:a"/>'
                    '<xs:element name="m" type="xs:string" substitutionGroup="t:k"/>')
    if uses_head(m, "p") or uses_head(m, "q"):      # XSD 1.1: r is a member of both substitution groups
        glob += ('<xs:element name="p" type="xs:string"/><xs:element name="q" type="xs:string"/>'
                 '<xs:element name="r" type="xs:string" substitutionGroup="t:p t:q"/>')
    imp = ""
    if uses_head(m, "f"):      # head f of this namespace with the member o of the foreign namespace urn:O
        import pathlib
        loc = (pathlib.Path(__file__).parent / "res" / "o_member.xsd").as_uri()
        imp = f'<xs:import namespace="urn:O" schemaLocation="{loc}"/>'
        glob += '<xs:element name="f" type="xs:string"/>'
    return (f'<xs:schema xmlns:xs="{XS}" targetNamespace="{TNS}" xmlns:t="{TNS}" '
            f'elementFormDefault="qualified">{imp}'
            f'<xs:element name="root"><xs:complexType{mixed}>{body}</xs:complexType></xs:element>'
            f'{glob}{"".join(groups_out)}</xs:schema>')


def word_xml(w):
    return (f'<t:root xmlns:t="{TNS}">'
            + "".join(SYM_XML.get(a) or f"<t:{a}/>" for a in w) + "</t:root>")


def model_str(m):
    """Compact human notation: a{0,2} (a,b)+ (a|b)? ..."""
    kind, x, mn, mx = m[:4]
    if len(m) > 4 and m[4] != "s":
        x = x + ":" + m[4]

    def o():
        if (mn, mx) == (1, 1):
            return ""
        if (mn, mx) == (0, 1):
            return "?"
        if (mn, mx) == (0, INF):
            return "*"
        if (mn, mx) == (1, INF):
            return "+"
        return "{%d,%s}" % (mn, "inf" if mx >= INF else mx)
    if kind == "e":
        return x + o()
    if kind == "h":
        return "^" + x + o()
    if kind == "w":
        return "#" + x + o()
    sep = {"s": ",", "c": "|", "a": "&"}[kind]
    return "(" + sep.join(model_str(k) for k in x) + ")" + o()


def mkey(m):
    return json.dumps(m, separators=(",", ":"))


def schema_class(ver):
    import xmlschema
    return xmlschema.XMLSchema10 if ver == "1.0" else xmlschema.XMLSchema11


def build(ver, xsd):
    """-> (schema | None, exception | None); only library exceptions are caught."""
    import xmlschema
    with warnings.catch_warnings():
        warnings.simplefilter("ignore")
        try:
            return schema_class(ver)(xsd), None
        except xmlschema.XMLSchemaException as e:
            return None, e


def to_tla(m):
    kind, x, mn, mx = m[:4]
    if kind in "ehw":
        if len(m) > 4:
            return f'<<"{kind}", "{x}", {mn}, {mx}, "{m[4]}">>'
        return f'<<"{kind}", "{x}", {mn}, {mx}>>'
    return f'<<"{kind}", <<' + ", ".join(to_tla(k) for k in x) + f">>, {mn}, {mx}>>"
