"""Batch trace validation with TLC (obligation C): write traces, run a Trace_* spec, parse verdict."""
from __future__ import annotations

import json
import re

from harness.core import MachineryError


def validate(ctx, module, traces, cfg_text, tag="trace"):
    """-> (rejected trace indexes (1-based), {index: furthest event reached}, raw output)."""
    if not traces:
        return [], {}, ""
    path = ctx.work / f"{module}_{len(ctx.tlc_runs)}.json"
    path.write_text(json.dumps(traces))
    r = ctx.tlc(module, cfg_text=cfg_text, workers=1, env={"TRACE_FILE": str(path)}, tag=tag)
    flat = re.sub(r"\s+", " ", r.out)
    m = re.search(r'<< ?"rejected", \{([^}]*)\} ?>>', flat)
    if not m:
        raise MachineryError(f"trace validation of {module} produced no verdict")
    rejected = [int(x) for x in m.group(1).replace(" ", "").split(",") if x]
    furthest = {}
    m2 = re.search(r'<< ?"furthest", \{(.*?)\} ?>> ', flat + " ")
    if m2:
        for t, l in re.findall(r"<< ?(\d+), (\d+) ?>>", m2.group(1)):
            furthest[int(t)] = int(l)
    return rejected, furthest, flat
