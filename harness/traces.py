"""Batch trace validation with TLC (obligation C): write traces, run a Trace_* spec, parse verdict."""
from __future__ import annotations

import json
import re

from harness.core import MachineryError


def _validate_chunk(ctx, module, traces, cfg_text, tag, k):
    path = ctx.work / f"{module}_{tag}_{k}_{len(ctx.tlc_runs)}.json"
    path.write_text(json.dumps(traces))
    r = ctx.tlc(module, cfg_text=cfg_text, workers=1, env={"TRACE_FILE": str(path)}, tag=f"{tag}-{k}")
    flat = re.sub(r"\s+", " ", r.out)
    m = re.search(r'<< ?"rejected", \{([^}]*)\} ?>>', flat)
    if not m:
        raise MachineryError(f"trace validation of {module} produced no verdict")
    rejected = [int(x) for x in m.group(1).replace(" ", "").split(",") if x]
    furthest = {}
    m2 = re.search(r'<< ?"furthest", \{(.*?)\} ?>> ', flat + " ")
    if m2:
        for t, l in re.findall(r"<< ?(\d+), (\d+) ?>>", m2.group(1)):
            furthest[int(t)] = int(l)
    return rejected, furthest, flat


CHUNK = 800


def validate(ctx, module, traces, cfg_text, tag="trace"):
    """-> (rejected trace indexes (1-based), {index: furthest event reached}, raw output).  Large batches are
    split into chunks validated by concurrent TLC runs (a single run is single-threaded)."""
    if not traces:
        return [], {}, ""
    if len(traces) <= CHUNK:
        return _validate_chunk(ctx, module, traces, cfg_text, tag, 0)
    parts = [traces[i:i + CHUNK] for i in range(0, len(traces), CHUNK)]
    res = ctx.parallel([(lambda k=k, p=p: _validate_chunk(ctx, module, p, cfg_text, tag, k))
                        for k, p in enumerate(parts)], width=8)
    rejected, furthest, flats = [], {}, []
    for k, (rej, fur, flat) in enumerate(res):
        off = k * CHUNK
        rejected += [off + t for t in rej]
        furthest.update({off + t: l for t, l in fur.items()})
        # re-number the trace ids inside reason tuples << id, event, "why" >>
        flats.append(re.sub(r'<< ?(\d+), (\d+), "', lambda m: f'<<{off + int(m.group(1))}, {m.group(2)}, "', flat))
    return rejected, furthest, " ".join(flats)
