"""Rendering of spec/Validator.tla documents (flat node lists) and path utilities."""
from __future__ import annotations

import re

from harness import cm

T = "urn:T"
import pathlib
X = "urn:X"
X_LOC = (pathlib.Path(__file__).parent / "res" / "x_known.xsd").as_uri()
XSD = (f'<xs:schema xmlns:xs="{cm.XS}" targetNamespace="{T}" xmlns:t="{T}" elementFormDefault="qualified">'
       f'<xs:import namespace="{X}" schemaLocation="{X_LOC}"/>'
       '<xs:element name="lib"><xs:complexType><xs:sequence>'
       '<xs:element name="item" type="t:item" maxOccurs="unbounded"/>'
       '<xs:any namespace="##other" processContents="lax" minOccurs="0"/></xs:sequence></xs:complexType></xs:element>'
       '<xs:complexType name="item"><xs:sequence>'
       '<xs:element name="title" type="xs:string"/><xs:element name="qty" type="xs:int"/>'
       '<xs:element name="note" type="xs:string" minOccurs="0"/>'
       '<xs:element name="sub" minOccurs="0"><xs:complexType><xs:sequence>'
       '<xs:element name="qty" type="xs:decimal" maxOccurs="unbounded"/></xs:sequence></xs:complexType>'
       '</xs:element>'
       '<xs:element name="memo" fixed="draft" minOccurs="0"><xs:complexType mixed="true"><xs:sequence>'
       '<xs:element name="em" type="xs:string" minOccurs="0"/></xs:sequence></xs:complexType></xs:element>'
       '<xs:any namespace="##other" processContents="strict" minOccurs="0" maxOccurs="2"/></xs:sequence>'
       '<xs:attribute name="id" type="xs:int" use="required"/><xs:attribute name="flag" type="xs:boolean"/>'
       '<xs:attribute name="ref" type="xs:QName"/><xs:attribute name="uc" type="t:ucode"/>'
       '<xs:attribute name="up" type="t:uplain"/></xs:complexType>'
       '<xs:simpleType name="uplain"><xs:union memberTypes="xs:int xs:date"/></xs:simpleType>'
       '<xs:simpleType name="ucode"><xs:restriction base="t:uplain"><xs:pattern value="[0-9]{3}|[0-9]{4}-[0-9]{2}-[0-9]{2}"/>'
       '</xs:restriction></xs:simpleType>'
       # global declarations that share their names with the LOCAL note / qty but not their types: they govern
       # nothing inside lib (spec/Validator.tla: the governing declaration is the local one)
       '<xs:element name="note" type="xs:int"/><xs:element name="qty" type="xs:boolean"/>'
       '</xs:schema>')

# XSD 1.1 variant: the root carries an INHERITABLE attribute (inherited by every descendant for conditional type
# assignment; it has no influence on validity: spec/Validator.tla applies unchanged)
XSD11 = XSD.replace('processContents="lax" minOccurs="0"/></xs:sequence></xs:complexType></xs:element>',
                    'processContents="lax" minOccurs="0"/></xs:sequence><xs:attribute name="lang" type="xs:string" '
                    'inheritable="true"/></xs:complexType></xs:element>', 1)
assert XSD11 != XSD

TEXT = {"num": {"ok": "5", "bad": "x"}, "memo": {"ok": "draft", "bad": "final"}, "ext": {"ok": "e"}, "title": {"ok": "abc"}, "qty": {"ok": "5", "bad": "x"}, "note": {"ok": "n"}}
ATTR = {"uc": {"ok": "123", "bad": "zzz"}, "up": {"ok": "5"}, "ref": {"ok": "x:known"}, "id": {"ok": "7", "bad": "x"}, "flag": {"ok": "true", "bad": "maybe"}, "bogus": {"ok": "1"}}


def render(nodes, prefix="t", default_ns=False, root_attrs="", inner_default=False, decl_on_item=False):
    """Flat node list (document order, paths) -> XML text.  inner_default: the root uses the prefix, every child
    of the root REDECLARES the namespace as default namespace and its subtree is written without prefixes."""
    out, stack = [], []
    pfx = "" if default_ns else prefix + ":"
    for i, n in enumerate(nodes):
        depth = len(n["path"])
        while len(stack) > depth:
            out.append(f"</{stack.pop()}>")
        tag = {"ext": "x:known", "unk": "x:unk", "wrap": "x:wrap", "num": "x:num"}.get(n["name"]) or \
            (n["name"] if (inner_default and depth >= 1) else pfx + n["name"])
        at = "".join(f' {a}="{ATTR[a][v]}"' for a, v in sorted(map(tuple, n["attrs"])))
        if depth == 0:
            at = (f' xmlns="{T}"' if default_ns else f' xmlns:{prefix}="{T}"') + \
                ("" if (inner_default or decl_on_item) else f' xmlns:x="{X}"') + root_attrs + at
        elif depth == 1 and inner_default:
            at = f' xmlns="{T}" xmlns:x="{X}"' + at      # (the QName value of @ref needs x here)
        elif depth == 1 and decl_on_item:
            at = f' xmlns:x="{X}"' + at                  # the prefix of x:* is declared on every item
        elif inner_default and n["name"] in ("ext", "unk"):
            at = f' xmlns:x="{X}"' + at         # (re)declared on the element itself
        out.append(f"<{tag}{at}>")
        stack.append(tag)
        if n["text"] == "stray":
            out.append("stray")
        elif n["text"] != "-":
            out.append(TEXT[n["name"]][n["text"]])
    while stack:
        out.append(f"</{stack.pop()}>")
    return "".join(out)


def index_paths(root):
    """id(element) -> tuple of 1-based child indexes (elements only)."""
    out = {}

    def walk(e, p):
        out[id(e)] = p
        k = 0
        for c in e:
            if isinstance(c.tag, str):
                k += 1
                walk(c, p + (k,))
    walk(root, ())
    return out


STEP = re.compile(r"(?:\{([^}]*)\}|([A-Za-z_][\w.-]*):)?([A-Za-z_][\w.-]*)(?:\[(\d+)\])?$")


def select(root, path, namespaces):
    """Independent evaluation of an error/instance path '/a/b[2]/c' on a tree: list of elements."""
    steps = [s for s in path.split("/") if s]
    if not steps:
        return [root]

    def expanded(step):
        m = STEP.match(step)
        if not m:
            raise ValueError(f"unsupported step {step!r} in {path!r}")
        uri, pfx, local, pos = m.groups()
        if uri is None:
            uri = namespaces.get(pfx or "", "") if (pfx or "" in namespaces) else ""
        return ("{%s}%s" % (uri, local) if uri else local), (int(pos) if pos else None)
    tag, pos = expanded(steps[0])
    cur = [root] if root.tag == tag and pos in (None, 1) else []
    for step in steps[1:]:
        tag, pos = expanded(step)
        nxt = []
        for e in cur:
            same = [c for c in e if c.tag == tag]
            if pos is None:
                nxt += same
            elif pos <= len(same):
                nxt.append(same[pos - 1])
        cur = nxt
    return cur
