#!/venv/bin/python
"""Developer tool (NOT used by any registered check): run a check in collection mode on the
pinned tree and store the complete list of failing cases per scope, after they have been triaged
as instances of a known finding.  usage: collect_witnesses.py C01"""
import gzip, importlib, json, os, sys
if os.environ.get("PYTHONHASHSEED") != "0" or os.environ.get("XMLSCHEMA_VERIF_TRACE") != "1":
    os.environ["PYTHONHASHSEED"] = "0"
    os.environ["XMLSCHEMA_VERIF_TRACE"] = "1"
    os.execv(sys.executable, [sys.executable] + sys.argv)
sys.path.insert(0, "/repo")
sys.path.insert(0, os.path.dirname(os.path.dirname(os.path.abspath(__file__))))
from harness.core import Ctx, VERIF
pid = sys.argv[1]
only = sys.argv[3:] if len(sys.argv) > 3 and sys.argv[2] == "--only" else None     # scopes to (re)collect
mod = importlib.import_module(f"checks.{pid.lower()}")
allw = {}
wfile = VERIF / "findings" / f"{pid}_witnesses.json.gz"
if only and wfile.exists():
    with gzip.open(wfile, "rt") as f:
        allw = {k: v for k, v in json.load(f).items() if k not in only}
for tier in ("quick", "thorough"):
    ctx = Ctx(pid, tier, 0)
    ctx.replay_mode = True
    col = {}
    import io, contextlib
    with contextlib.redirect_stdout(io.StringIO()):
        if only:
            mod.run(ctx, collect=col, only=only)
        else:
            mod.run(ctx, collect=col)
    for scope, keys in col.items():
        allw[scope] = sorted(set(allw.get(scope, [])) | set(keys))
    print(tier, {k: len(v) for k, v in col.items()}, flush=True)
(VERIF / "findings").mkdir(exist_ok=True)
with gzip.open(VERIF / "findings" / f"{pid}_witnesses.json.gz", "wt") as f:
    json.dump(allw, f)
print({k: len(v) for k, v in allw.items()})
