"""C04 - all validation entry points and modes agree on one verdict.

Spec: spec/Trace_Observations.tla.  The driver calls, for one schema and one document, every entry
point (schema methods and package-level functions) x validation mode x source kind (text, bytes,
path, file URL, open text / binary file, parsed element, ElementTree, XMLResource) and records one
observation per call at the public API (return value / exception).  TLC must find ONE hidden error
list (its length and first error) that explains every observation of the trace; decoded data of
valid documents is compared across modes and kinds; the validate command is run for documents with
0, 1, 2, 255, 256, 257 and 512 errors.  Documents: the pool drawn from the ContentModel,
Attributes, Derivation and Identity specifications (all fault classes).
"""
from __future__ import annotations

from harness.core import stable
import io
import json
import os
import random
import re
import sys
import tempfile
import warnings
import xml.etree.ElementTree as ET

from harness import cm, pool, traces
from harness.core import Ctx, MachineryError

CFG = "SPECIFICATION Spec\nCONSTRAINT Mark\nPOSTCONDITION Post\nCHECK_DEADLOCK FALSE\n"
KINDS = ["text", "bytes", "path", "url", "textfile", "binfile", "element", "tree", "resource", "hinted"]
# "hinted": the document file carries xsi:schemaLocation / xsi:noNamespaceSchemaLocation hints that name a DECOY schema
# (every root declared xs:anyType) next to it; the schema is handed to the package-level functions as a PATH and as
# TEXT - the given schema decides, not the hint
DECOY_T = (f'<xs:schema xmlns:xs="{cm.XS}" targetNamespace="urn:T">' + "".join(
    f'<xs:element name="{n}" type="xs:anyType"/>' for n in ("lib", "root", "e", "E", "r", "P", "doc")) + "</xs:schema>")
DECOY_0 = f'<xs:schema xmlns:xs="{cm.XS}"><xs:element name="v" type="xs:anyType"/></xs:schema>'



NSMAP = {"t": "urn:T", "a": "urn:A", "f": "urn:F", "o": "urn:O", "p": "urn:P", "q": "urn:P", "x": "urn:X",
         "xsi": "http://www.w3.org/2001/XMLSchema-instance", "xs": cm.XS}
_PFX = None


def expand(name):
    """'t:x' -> '{urn:T}x' (pool documents declare every prefix on the root, with these meanings):
    parsed ElementTree sources carry no prefixes, so names are compared in expanded form."""
    import re
    global _PFX
    if _PFX is None:
        _PFX = re.compile(r"(?<![\w{])(" + "|".join(NSMAP) + r"):(?=[A-Za-z_])")
    return _PFX.sub(lambda m: "{%s}" % NSMAP[m.group(1)], name)


def norm_data(d):
    if isinstance(d, dict):
        out = {expand(k): norm_data(v) for k, v in d.items()
               if not k.startswith("@xmlns") and not k.endswith(("schemaLocation", "noNamespaceSchemaLocation"))}
        if set(out) == {"$"}:
            return out["$"]         # simple content whose only attributes were namespace declarations / location hints
        return out or None          # a dictionary holding only xmlns declarations is "no content"
    if isinstance(d, list):
        return [norm_data(x) for x in d]
    return d


def err_key(e):
    return (type(e).__name__, expand(getattr(e, "path", None) or ""),
            expand(stable(getattr(e, "reason", None) or e)[:200]))


def observe(case, ver, tmpdir):
    """-> (events, direct disagreements)."""
    import xmlschema
    schema = pool.load_schema(case, ver)
    xml = case["xml"]
    path = os.path.join(tmpdir, f"doc_{case['id']}_{ver}.xml")
    with open(path, "w", encoding="utf-8") as f:
        f.write(xml)
    hinted = None
    if len(case["xsds"]) == 1:
        for name, text in (("decoy_t.xsd", DECOY_T), ("decoy.xsd", DECOY_0)):
            with open(os.path.join(tmpdir, name), "w") as f:
                f.write(text)
        m = re.match(r"\s*(<\?xml[^>]*\?>)?\s*<[^\s/>]+", xml)
        hint = ' xsi:schemaLocation="urn:T decoy_t.xsd" xsi:noNamespaceSchemaLocation="decoy.xsd"'
        if "xmlns:xsi=" not in xml[:xml.index(">")]:
            hint = ' xmlns:xsi="http://www.w3.org/2001/XMLSchema-instance"' + hint
        hinted = os.path.join(tmpdir, f"hinted_{case['id']}_{ver}.xml")
        with open(hinted, "w", encoding="utf-8") as f:
            f.write(xml[:m.end()] + hint + xml[m.end():])
        xsd_path = os.path.join(tmpdir, f"schema_{case['id']}_{ver}.xsd")
        with open(xsd_path, "w", encoding="utf-8") as f:
            f.write(case["xsds"][0])
    ids: dict = {}

    first_lax = []          # the first error of the first lax run: what a union's generic error stands for
    union_generic = [0]

    def eid(e):
        # F-C04-d: in strict mode a union raises its own generic 'invalid value' decode error, in lax mode the
        # error of the first member type that could read the text is collected (the suite asserts both)
        if first_lax and type(getattr(e, "validator", None)).__name__ in ("XsdUnion", "Xsd11Union") \
                and type(e).__name__ == "XMLSchemaDecodeError" and str(e.reason).startswith("invalid value"):
            union_generic[0] += 1
            return first_lax[0]
        return ids.setdefault(err_key(e), len(ids) + 1)
    events, direct = [], []
    data_ref = None
    opened = []

    def source(kind):
        if kind == "text":
            return xml
        if kind == "bytes":
            return xml.encode("utf-8")
        if kind == "path":
            return path
        if kind == "url":
            return "file://" + path
        if kind == "textfile":
            fh = open(path, encoding="utf-8")
            opened.append(fh)
            return fh
        if kind == "binfile":
            fh = open(path, "rb")
            opened.append(fh)
            return fh
        if kind == "element":
            return ET.parse(path).getroot()
        if kind == "tree":
            return ET.parse(path)
        if kind == "hinted":
            return hinted
        return xmlschema.XMLResource(xml)

    def ev(entry, kind, **kw):
        rec = {"entry": entry, "kind": kind, "n": 0, "first": 0, "exc": 0, "res": False, "status": 0}
        rec.update(kw)
        events.append(rec)

    def guarded(entry, kind, fn):
        try:
            return True, fn()
        except xmlschema.XMLSchemaValidationError as e:
            return False, e
        except Exception as e:      # noqa: BLE001  (any other exception is a disagreement)
            direct.append((entry, kind, f"raised {type(e).__name__}: {e}"[:200]))
            return None, None

    # a parsed ElementTree has lost the prefix declarations that QName VALUES (xs:QName attributes) need: the
    # caller hands them over through the namespaces argument, as the documentation says
    decls = set(re.findall(r'xmlns:(\w+)="([^"]*)"', xml))
    tree_ns = dict(decls) if len(dict(decls)) == len(decls) else None
    for kind in KINDS:
        if kind in ("element", "tree") and (case["origin"] == "derivation" or tree_ns is None):
            continue    # xsi:type values are QNames: a parsed tree has lost the prefixes they need
        nskw = {"namespaces": tree_ns} if kind in ("element", "tree") and ' ref="' in xml else {}
        if kind == "hinted" and hinted is None:
            continue
        for api in ("method", "function") if kind != "hinted" else ("function-path", "function-text"):
            if api == "function" and kind not in ("text", "path", "element"):
                continue
            tag = kind if api == "method" else kind + "/pkg" if api == "function" else kind + "/" + api[9:]
            given = schema if api in ("method", "function") else xsd_path if api == "function-path" else case["xsds"][0]
            cls_kw = {} if api in ("method", "function") else {"cls": cm.schema_class(ver)}
            if api == "method":
                is_valid = lambda s: schema.is_valid(s, **nskw)                 # noqa: E731
                iter_errors = lambda s: schema.iter_errors(s, **nskw)           # noqa: E731
                validate = lambda s: schema.validate(s, **nskw)                 # noqa: E731
                decode = lambda s, **k: schema.decode(s, **nskw, **k)           # noqa: E731
            else:
                is_valid = lambda s: xmlschema.is_valid(s, schema=given, **cls_kw, **nskw)            # noqa: E731
                iter_errors = lambda s: xmlschema.iter_errors(s, schema=given, **cls_kw, **nskw)      # noqa: E731
                validate = lambda s: xmlschema.validate(s, schema=given, **cls_kw, **nskw)            # noqa: E731
                decode = lambda s, **k: xmlschema.to_dict(s, schema=given, **cls_kw, **nskw, **k)     # noqa: E731
            ok, r = guarded("is_valid", tag, lambda: is_valid(source(kind)))
            if ok is not None:
                ev("is_valid", tag, res=bool(r) if ok else False, exc=0 if ok else eid(r))
            ok, r = guarded("iter_errors", tag, lambda: list(iter_errors(source(kind))))
            if ok:
                if r and not first_lax:
                    first_lax.append(eid(r[0]))
                ev("iter_errors", tag, n=len(r), first=eid(r[0]) if r else 0)
            elif ok is False:
                ev("iter_errors", tag, exc=eid(r))
            ok, r = guarded("validate", tag, lambda: validate(source(kind)))
            if ok is not None:
                ev("validate", tag, exc=0 if ok else eid(r))
            ok, r = guarded("decode_strict", tag, lambda: decode(source(kind)))
            if ok is not None:
                ev("decode_strict", tag, exc=0 if ok else eid(r))
                if ok:
                    r = norm_data(r)
                    if data_ref is None:
                        data_ref = ("strict/" + tag, r)
                    elif r != data_ref[1]:
                        direct.append(("decode_strict", tag, f"data differs from {data_ref[0]}: {r!r} vs "
                                       f"{data_ref[1]!r}"[:300]))
            ok, r = guarded("decode_lax", tag, lambda: decode(source(kind), validation="lax"))
            if ok:
                if not (isinstance(r, tuple) and len(r) == 2):
                    direct.append(("decode_lax", tag, f"lax decode returned {type(r).__name__}, not (data, errors)"))
                else:
                    ev("decode_lax", tag, n=len(r[1]), first=eid(r[1][0]) if r[1] else 0)
                    if not r[1] and data_ref is not None and norm_data(r[0]) != data_ref[1]:
                        direct.append(("decode_lax", tag, f"data differs from {data_ref[0]}"))
            elif ok is False:
                ev("decode_lax", tag, exc=eid(r))
            ok, r = guarded("decode_skip", tag, lambda: decode(source(kind), validation="skip"))
            if ok is not None:
                ev("decode_skip", tag, exc=0 if ok else eid(r))
                if ok and data_ref is not None and data_ref[0].startswith("strict") \
                        and norm_data(r) != data_ref[1]:
                    direct.append(("decode_skip", tag, f"skip-mode data of a valid document differs from "
                                   f"{data_ref[0]}"))
    for fh in opened:
        fh.close()
    if union_generic[0]:
        direct.append(("validate", "all", f"strict mode raised the union's generic 'invalid value' error "
                       f"{union_generic[0]} times where lax mode collects the member type's error", "F-C04-d"))
    return events, direct


def cli_case(k, ver, tmpdir):
    """validate command on a document with exactly k errors. -> events."""
    import xmlschema
    from xmlschema import cli
    xsd = (f'<xs:schema xmlns:xs="{cm.XS}"><xs:element name="r"><xs:complexType><xs:sequence>'
           f'<xs:element name="i" type="xs:int" minOccurs="0" maxOccurs="unbounded"/></xs:sequence>'
           f'</xs:complexType></xs:element></xs:schema>')
    xml = "<r>" + "<i>x</i>" * k + "<i>1</i></r>"
    sp = os.path.join(tmpdir, f"cli_{ver}.xsd")
    dp = os.path.join(tmpdir, f"cli_{k}_{ver}.xml")
    open(sp, "w").write(xsd)
    open(dp, "w").write(xml)
    schema = cm.schema_class(ver)(xsd)
    n = len(list(schema.iter_errors(xml)))
    argv, out, err = sys.argv, sys.stdout, sys.stderr
    sys.argv = ["xmlschema-validate", "--schema", sp, "--version", ver, dp]
    sys.stdout, sys.stderr = io.StringIO(), io.StringIO()
    try:
        cli.validate()
        status = 0
    except SystemExit as e:
        status = e.code if isinstance(e.code, int) else (0 if e.code is None else 1)
        status = status & 0xFF if status >= 0 else 1        # what the operating system reports
    finally:
        sys.argv, sys.stdout, sys.stderr = argv, out, err
    base = {"kind": "cli", "n": 0, "first": 0, "exc": 0, "res": False, "status": 0}
    return [dict(base, entry="iter_errors", n=n, first=1 if n else 0),
            dict(base, entry="cli", status=status)], n


def work(job):
    kind, payload, ver = job
    with warnings.catch_warnings():
        warnings.simplefilter("ignore")
        with tempfile.TemporaryDirectory(prefix="verif_c04_") as tmp:
            if kind == "cli":
                evs, n = cli_case(payload, ver, tmp)
                return {"id": f"cli-{payload}", "ver": ver, "ev": evs, "direct": [],
                        "about": f"validate command, document with {payload} errors (iter_errors: {n})",
                        "cli_k": payload}
            evs, direct = observe(payload, ver, tmp)
            return {"id": payload["id"], "ver": ver, "ev": evs, "direct": direct,
                    "about": payload["about"], "xml": payload["xml"], "xsds": payload["xsds"]}


def select(cases, n, seed):
    """Balanced selection over (origin, spec verdict)."""
    rng = random.Random(seed)
    by = {}
    for c in cases:
        by.setdefault((c["origin"], c["spec_valid"]), []).append(c)
    out = []
    per = max(1, n // len(by))
    for k in sorted(by):
        v = by[k]
        rng.shuffle(v)
        out += v[:per]
    return out


def run(ctx: Ctx):
    thorough = ctx.tier == "thorough"
    cases = pool.build_pool(ctx, scale=1)
    # two-fault documents are all taken (the order of the error list is what they are for); the rest is
    # a balanced seeded selection
    double = [c for c in cases if c["origin"] in ("validator2", "attributes-core")]
    chosen = double + select([c for c in cases if c["origin"] not in ("validator2", "attributes-core")],
                             2400 if thorough else 200, ctx.seed)
    jobs = [("doc", c, ver) for c in chosen for ver in ("1.0", "1.1")]
    jobs += [("doc", c, "1.1") for c in pool.inheritable_cases(ctx, 3 if thorough else 9)]
    jobs += [("cli", k, ver) for k in (0, 1, 2, 255, 256, 257, 512) for ver in ("1.0", "1.1")]
    results = ctx.pmap(work, jobs)
    trs = [{"ev": r["ev"]} for r in results]
    rejected, furthest, _ = traces.validate(ctx, "Trace_Observations", trs, CFG)
    ctx.impl_traces = len(trs)
    nobs = sum(len(r["ev"]) for r in results)
    for t in rejected:
        r = results[t - 1]
        l = furthest.get(t, 1)
        bad_ev = r["ev"][l - 1] if 0 < l <= len(r["ev"]) else None
        ctx.report({"driver": "trace", "ver": r["ver"], "about": r["about"], "events": r["ev"],
                    "failing_event": bad_ev, "xml": r.get("xml"), "xsds": r.get("xsds"),
                    "cli_k": r.get("cli_k")},
                   f"{r['ver']} {r['about']}: no single error list explains the observations; the longest "
                   f"explanation stops at event {l}: {bad_ev}")
    for r in results:
        for item in r["direct"]:
            entry, kind, what = item[:3]
            ctx.report({"driver": "direct", "ver": r["ver"], "about": r["about"], "xml": r.get("xml"),
                        "xsds": r.get("xsds"), "entry": entry, "kind": kind, "observed": what},
                       f"{r['ver']} {r['about']}: {entry} [{kind}]: {what}",
                       finding=item[3] if len(item) > 3 else None)
    # binding self-test: flip one verdict -> the batch must reject that trace
    import copy
    mut = copy.deepcopy(trs[:50])
    for t in mut:
        for e in t["ev"]:
            if e["entry"] == "is_valid":
                e["res"] = not e["res"]
                break
        else:
            continue
        break
    rej, _, _ = traces.validate(ctx, "Trace_Observations", mut, CFG, tag="selftest")
    if not rej:
        raise MachineryError("binding self-test: a trace with a flipped is_valid verdict was accepted")
    ctx.sample({"about": results[0]["about"], "events": results[0]["ev"][:8]})
    ctx.sample({"about": results[-1]["about"], "events": results[-1]["ev"]})
    ctx.evaluations = nobs
    ctx.nontrivial = len(trs)
    ctx.rule = ("one trace per (document, schema class): ~60 observations (entry point x mode x source "
                "kind x method/package function); documents: balanced seeded selection from the pool "
                "(content-model, attribute, xsi:type/nil, identity fault classes; valid and invalid) "
                "plus the validate command on documents with 0,1,2,255,256,257,512 errors")
    ctx.assumptions += ["error identity = (class, path, reason); ElementTree sources are used for all pool "
                        "documents (none has prefix-dependent values)",
                        "the validate command is called in-process; the status is what the OS would report "
                        "(exit code modulo 256)"]
    ctx.extra.update({"documents": len(chosen), "pool": len(cases), "observations": nobs})


def replay(ctx: Ctx, case):
    if case.get("driver") == "trace":
        rej, fur, _ = traces.validate(ctx, "Trace_Observations", [{"ev": case["events"]}], CFG)
        if rej:
            ctx.report(case, "no single error list explains the observations")
    else:
        ctx.report(case, case.get("observed", "direct disagreement (re-run the check to re-observe)"))
