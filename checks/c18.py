"""C18 - one schema object can be built and used from many threads with unchanged results.

Spec: spec/Threads.tla (double-checked build lock, one action per step).  A: for 2-3 threads TLC
checks BuiltOnce, NoPartialUse, MutualExclusion, FlagMeansFull and termination under weak fairness; Apalache
discharges an inductive invariant (MC_ThreadsInd.tla, 4 threads) that implies the four safety properties at any depth;
the two named deviations (re-check removed, flag set before the build) must be refuted (non-vacuity).
B: a controlled scheduler serialises 2-4 real threads that race to build one unbuilt schema and then
validate documents: switch points at every function entry inside the package (sys.monitoring), the
library's locks replaced by cooperative wrappers, schedule = f(seed); every result must equal the
single-threaded result on a fresh schema.  C: lock.* hook events (emitted under the build lock) plus
the driver's use events are validated in batch against Trace_Threads.tla.  A free-running stress
with a minimal switch interval completes the picture.
"""
from __future__ import annotations

from harness.core import stable
import json
import random
import re
import sys
import threading
import time
import warnings

from harness import cm, pool, traces
from harness.core import Ctx, MachineryError

import os
PKG = os.environ.get("VERIF_REPO", "/repo") + "/xmlschema"
CFG = "SPECIFICATION Spec\nCONSTRAINT Mark\nPOSTCONDITION Post\nCHECK_DEADLOCK FALSE\n"
# XSD 1.1 only: per-value XPath evaluation (assertion facets, assertions on complex types)
ASSERT_XSD = (f'<xs:schema xmlns:xs="{cm.XS}"><xs:element name="r"><xs:complexType><xs:sequence>'
              '<xs:element name="v" type="small" maxOccurs="unbounded"/>'
              '<xs:element name="e" maxOccurs="unbounded" minOccurs="0"><xs:complexType><xs:simpleContent>'
              '<xs:extension base="xs:int"><xs:attribute name="k" type="xs:int"/>'
              '<xs:assert test="@k = $value"/></xs:extension></xs:simpleContent></xs:complexType></xs:element>'
              '</xs:sequence><xs:attribute name="n" type="xs:int"/>'
              '<xs:assert test="count(v) = @n"/></xs:complexType></xs:element>'
              '<xs:simpleType name="small"><xs:restriction base="xs:int">'
              '<xs:assertion test="$value lt 10"/><xs:assertion test="$value mod 2 = 0"/></xs:restriction>'
              '</xs:simpleType></xs:schema>')


def assert_docs():
    def doc(vals, n=None, es=()):
        return (f'<r n="{len(vals) if n is None else n}">' + "".join(f"<v>{v}</v>" for v in vals)
                + "".join(f'<e k="{k}">{t}</e>' for k, t in es) + "</r>")
    return [doc([2, 4, 6, 8, 0, 2, 4, 6]), doc([12, 14, 16, 18, 20, 22, 24, 26]), doc([2, 13, 4, 15, 6, 17, 8, 19]),
            doc([1, 3, 5, 7, 9, 1, 3, 5]), doc([2, 4], n=3, es=[(1, "1"), (2, "3"), (5, "5"), (2, "7")])]



class Sched:
    """Serialises the worker threads; a switch is decided by the seeded generator at yield points."""

    def __init__(self, n, seed, rate, horizon=0):
        self.n = n
        self.rng = random.Random(seed)
        self.rate = rate
        # arrival times: thread i > 0 cannot be switched to before `start_at[i]` yield points have passed, so
        # that threads reach build() at any moment of another thread's build (also during its final phase)
        self.start_at = [0] + [self.rng.randrange(0, horizon + 1) if (horizon and self.rng.random() < 0.7) else 0
                               for _ in range(n - 1)]
        self.ev = [threading.Event() for _ in range(n)]
        self.done = [False] * n
        self.tid = {}
        self.active = False
        self.points = self.switches = 0

    def start(self):
        self.active = True
        self.ev[0].set()

    def _switch(self, i):
        cands = [j for j in range(self.n) if not self.done[j] and j != i and self.start_at[j] <= self.points]
        if not cands:
            return False
        j = self.rng.choice(cands)
        self.switches += 1
        self.ev[i].clear()
        self.ev[j].set()
        self.ev[i].wait()
        return True

    def yield_point(self):
        if not self.active:
            return
        i = self.tid.get(threading.get_ident())
        if i is None:
            return
        self.points += 1
        if self.rng.random() < self.rate:
            self._switch(i)

    def blocked(self):
        i = self.tid.get(threading.get_ident())
        if i is None:
            time.sleep(0.0005)
        elif not self._switch(i):
            self.start_at = [0] * self.n        # everybody else is late: let them arrive now
            if not self._switch(i):
                time.sleep(0.0005)

    def finish(self, i):
        self.done[i] = True
        self.start_at = [0] * self.n
        cands = [j for j in range(self.n) if not self.done[j]]
        if cands:
            self.ev[cands[0]].set()


def coop_lock(sched):
    class CoopLock:
        def __init__(self):
            self._l = threading.Lock()

        def acquire(self, blocking=True, timeout=-1):
            while not self._l.acquire(False):
                if not blocking:
                    return False
                sched.blocked()
            return True

        def release(self):
            self._l.release()

        def __enter__(self):
            self.acquire()
            return self

        def __exit__(self, *a):
            self.release()

        def locked(self):
            return self._l.locked()
    return CoopLock()


def result_of(schema, xml):
    errs = [(e.path, stable(e.reason)[:120]) for e in schema.iter_errors(xml)]
    try:
        data = repr(schema.decode(xml, validation="lax")[0])
    except Exception as e:      # noqa: BLE001
        data = f"raised {type(e).__name__}"
    return errs, data


def run_schedule(job):
    ver, xsds, docs, nthreads, seed, controlled = job[:6]
    lin = len(job) > 6       # results are compared with every SEQUENTIAL order of the calls (the schema keeps
    #                          state across calls, F-C10-a): a result no order explains is a race
    from xmlschema import _verif_trace as vt
    cls = cm.schema_class(ver)
    with warnings.catch_warnings():
        warnings.simplefilter("ignore")
        base = cls(list(xsds) if len(xsds) > 1 else xsds[0])
        expected = [result_of(base, d) for d in docs]
        nglobals = len(base.maps.elements) + len(base.maps.types)
        s = cls(list(xsds) if len(xsds) > 1 else xsds[0], build=False)
    horizon = 0
    if controlled:        # function entries of an undisturbed build(): the range of the arrival times
        with warnings.catch_warnings():
            warnings.simplefilter("ignore")
            probe = cls(list(xsds) if len(xsds) > 1 else xsds[0], build=False)
        cnt = [0]
        mon0 = sys.monitoring

        def count(code, off):
            if code.co_filename.startswith(PKG):
                cnt[0] += 1
            else:
                return mon0.DISABLE
        mon0.use_tool_id(mon0.PROFILER_ID, "verif-count")
        mon0.register_callback(mon0.PROFILER_ID, mon0.events.PY_START, count)
        mon0.set_events(mon0.PROFILER_ID, mon0.events.PY_START)
        try:
            probe.build()
        finally:
            mon0.set_events(mon0.PROFILER_ID, 0)
            mon0.register_callback(mon0.PROFILER_ID, mon0.events.PY_START, None)
            mon0.free_tool_id(mon0.PROFILER_ID)
        horizon = int(cnt[0] * 1.1)
    sched = Sched(nthreads, seed, 0.03 if controlled else 0.0, horizon)
    module_locks = []
    if controlled:
        object.__setattr__(s.maps, "_build_lock", coop_lock(sched))
        object.__setattr__(s.maps.cache, "_lock", coop_lock(sched))
        # module-level locks of the package (any threading.Lock / RLock bound to a module global): cooperative too,
        # or a thread parked by the scheduler while holding one would block the running thread for good
        lock_types = (type(threading.Lock()), type(threading.RLock()))
        for name, mod in list(sys.modules.items()):
            if name == "xmlschema" or name.startswith("xmlschema."):
                for attr, val in list(vars(mod).items()):
                    if isinstance(val, lock_types):
                        module_locks.append((mod, attr, val))
                        setattr(mod, attr, coop_lock(sched))
    results = [None] * nthreads
    thread_index = {}
    ev = vt.start()

    def worker(i):
        thread_index[threading.get_ident()] = i
        sched.tid[threading.get_ident()] = i
        if controlled:
            sched.ev[i].wait()
        try:
            with warnings.catch_warnings():
                warnings.simplefilter("ignore")
                s.build()
                complete = s.maps.built and (len(s.maps.elements) + len(s.maps.types)) == nglobals
                vt.emit("use", complete=bool(complete))
                results[i] = result_of(s, docs[i % len(docs)])
        except Exception as e:      # noqa: BLE001
            results[i] = ("EXC", type(e).__name__, str(e)[:160])
        finally:
            if controlled:
                sched.finish(i)
    mon = sys.monitoring
    tool = mon.DEBUGGER_ID
    if controlled:
        mon.use_tool_id(tool, "verif-sched")

        def on_start(code, off):
            if code.co_filename.startswith(PKG):
                sched.yield_point()
            else:
                return mon.DISABLE
        mon.register_callback(tool, mon.events.PY_START, on_start)
        mon.set_events(tool, mon.events.PY_START)
    else:
        old = sys.getswitchinterval()
        sys.setswitchinterval(1e-6)
    ths = [threading.Thread(target=worker, args=(i,)) for i in range(nthreads)]
    try:
        for t in ths:
            t.start()
        if controlled:
            sched.start()
        for t in ths:
            t.join(60)
        hung = any(t.is_alive() for t in ths)
    finally:
        if controlled:
            mon.set_events(tool, 0)
            mon.register_callback(tool, mon.events.PY_START, None)
            mon.free_tool_id(tool)
        else:
            sys.setswitchinterval(old)
        for mod, attr, val in module_locks:
            setattr(mod, attr, val)
        vt.stop()
    out = []
    if hung:
        out.append("a thread did not finish within 60 s (deadlock?)")
        for i in range(nthreads):
            sched.ev[i].set()
    if lin and not hung:
        import itertools
        explained = None
        for perm in itertools.permutations(range(nthreads)):
            with warnings.catch_warnings():
                warnings.simplefilter("ignore")
                f = cls(list(xsds) if len(xsds) > 1 else xsds[0])
            seq = {}
            for i in perm:
                seq[i] = result_of(f, docs[i % len(docs)])
            if all(results[i] == seq[i] for i in range(nthreads)):
                explained = perm
                break
        if explained is None:
            out.append(f"no sequential order of the {nthreads} calls explains the results "
                       f"{[str(r)[:160] for r in results]} (documents {[docs[i % len(docs)] for i in range(nthreads)]})")
    for i in range(nthreads if not lin else 0):
        want = expected[i % len(docs)]
        if results[i] != want:
            out.append(f"thread {i}: {str(results[i])[:300]} differs from the single-threaded result "
                       f"{str(want)[:300]}")
    evs = []
    for e in ev:
        if e["ev"].startswith("lock.") and e.get("maps") == id(s.maps):
            evs.append({"e": e["ev"][5:], "t": thread_index.get(e["tid"], 0) + 1, "b": bool(e.get("built"))})
        elif e["ev"] == "use":
            evs.append({"e": "use", "t": thread_index.get(e["tid"], 0) + 1, "b": bool(e["complete"])})
    return out, {"ev": evs}, sched.points, sched.switches


def run(ctx: Ctx):
    thorough = ctx.tier == "thorough"
    for n, re_, ff, expect in ((2, "TRUE", "FALSE", None), (3, "TRUE", "FALSE", None),
                               (2, "FALSE", "FALSE", "BuiltOnce"), (2, "TRUE", "TRUE", "NoPartialUse")):
        r = ctx.tlc("Threads", "Threads.cfg", constants={"N": n, "Recheck": re_, "FlagFirst": ff},
                    expect_violation=expect is not None, count=expect is None, tag=f"A-{n}-{re_}-{ff}")
        if expect and expect not in r.invariant_violated:
            raise MachineryError(f"vacuity: deviation Recheck={re_} FlagFirst={ff} does not violate {expect}")
    # unbounded in depth: the inductive invariant of the protocol (Apalache): Init => IndInv, IndInv is preserved
    # by every step, IndInv => the four safety properties
    ctx.apalache("MC_ThreadsInd", "Init", "IndInv", 0)
    ctx.apalache("MC_ThreadsInd", "IndInit", "IndInv", 1)
    ctx.apalache("MC_ThreadsInd", "IndInit", "Safety", 0)
    cases = [c for c in pool.build_pool(ctx, scale=3)
             if not (c["origin"] == "content-model" and not c.get("strong", True))]
    import collections
    by = collections.defaultdict(list)
    for c in cases:
        by[tuple(c["xsds"])].append(c["xml"])
    groups = [(x, sorted(set(d))[:4]) for x, d in sorted(by.items())]
    rng = random.Random(ctx.seed)
    rng.shuffle(groups)
    nsched = 600 if thorough else 120
    jobs = []
    for k in range(nsched):
        x, d = groups[k % len(groups)]
        jobs.append(("1.0" if k % 2 else "1.1", x, d, 2 + k % 3, ctx.seed * 100003 + k, True))
    for k in range(60 if thorough else 12):
        x, d = groups[(k * 7) % len(groups)]
        jobs.append(("1.0", x, d, 4, ctx.seed * 100003 + k, False))
    for k in range(120 if thorough else 24):        # XSD 1.1 per-value XPath evaluation, different documents per thread
        jobs.append(("1.1", (ASSERT_XSD,), assert_docs(), 2 + k % 3, ctx.seed * 7 + k, k % 6 != 5))
    # xsi:type under identity constraints (the scenario of spec/History.tla): the first use of a type on an element
    # declaration changes the schema object; every thread's result must be the result of SOME sequential order
    from checks import c10
    xdocs = [c10.doc_xml({"id": i, "retyped": r, "dup": d}) for i, r, d in
             (("I1", True, True), ("I1", True, True), ("I2", True, True), ("I2", True, True), ("I1", True, False))]
    for k in range(400 if thorough else 80):
        rot = xdocs[k % 5:] + xdocs[:k % 5]
        jobs.append(("1.0" if k % 2 else "1.1", (c10.XSD,), rot, 2 + k % 3, ctx.seed * 31 + k, k % 8 != 7, "lin"))
    res = ctx.pmap(run_schedule, jobs, chunks=2)
    trs = []
    points = switches = 0
    for job, (bad, tr, p, sw) in zip(jobs, res):
        trs.append(tr)
        points += p
        switches += sw
        for what in bad:
            ctx.report({"driver": "schedule", "ver": job[0], "xsds": list(job[1]), "docs": job[2],
                        "threads": job[3], "seed": job[4], "controlled": job[5], "lin": len(job) > 6,
                        "observed": what},
                       f"{job[3]} threads, seed {job[4]}, {'controlled' if job[5] else 'free-running'}: {what}")
    rejected, _, flat = traces.validate(ctx, "Trace_Threads", trs, CFG)
    reasons = {int(t): (int(l), w) for t, l, w in re.findall(r'<< ?(\d+), (\d+), "([^"]+)" ?>>', flat)}
    for t in rejected:
        l, why = reasons.get(t, (0, "no behaviour explains the events (or the schema was not built exactly once)"))
        job = jobs[t - 1]
        ctx.report({"driver": "trace", "trace": trs[t - 1], "seed": job[4], "threads": job[3], "event": l,
                    "observed": why}, f"lock trace rejected at event {l}: {why}")
    ctx.impl_traces = len(trs)
    ctx.impl_replays = len(jobs)
    # binding self-test: a second 'clear' must be rejected
    mut = json.loads(json.dumps(trs[:10]))
    for t in mut:
        k = [i for i, e in enumerate(t["ev"]) if e["e"] == "built"]
        if k:
            t["ev"].insert(k[0] + 1, {"e": "clear", "t": t["ev"][k[0]]["t"], "b": False})
            break
    rej, _, _ = traces.validate(ctx, "Trace_Threads", mut, CFG, tag="selftest")
    if not rej:
        raise MachineryError("binding self-test: a trace with a second build was accepted")
    ctx.sample({"threads": jobs[0][3], "seed": jobs[0][4], "events": trs[0]["ev"]})
    ctx.evaluations = len(jobs)
    ctx.nontrivial = len(jobs)
    ctx.rule = ("controlled schedules: 2-4 threads racing build() on an unbuilt schema then validating pool "
                "documents; switch decisions from a seeded generator at every function entry inside the "
                "package (3 % switch rate) and at every blocked lock acquisition; plus free-running 4-thread "
                "stress with a 1 microsecond switch interval; threads reach build() at seeded arrival times spread over "
                "the whole duration of an undisturbed build; plus an XSD 1.1 schema with assertion facets, a complex-type "
                "assertion validated with different documents per thread; plus the xsi:type / identity scenario of "
                "spec/History.tla, judged by linearizability (some sequential order of the calls must explain all results)")
    ctx.assumptions += ["races inside a single C call are invisible to the controlled scheduler",
                        "documents do not trigger loading of further schemas; pool documents that hit "
                        "F-C10-a (xsi:type under identities) are not in the pool schemas used here"]
    ctx.extra.update({"yield_points": points, "forced_switches": switches})


def replay(ctx: Ctx, case):
    if case.get("driver") == "schedule":
        bad, tr, _, _ = run_schedule((case["ver"], tuple(case["xsds"]), case["docs"], case["threads"],
                                      case["seed"], case["controlled"]) + (("lin",) if case.get("lin") else ()))
        for what in bad:
            ctx.report(dict(case, observed=what), what)
    else:
        rej, _, _ = traces.validate(ctx, "Trace_Threads", [case["trace"]], CFG)
        if rej:
            ctx.report(case, "lock trace rejected")
    ctx.states = max(1, ctx.states)
    ctx.transitions = max(1, ctx.transitions)
