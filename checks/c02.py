"""C02 - simple-type validation / decoding / encoding follow XSD datatype semantics.

Spec: spec/SimpleTypes.tla (+ ST_Tables.tla).  A: TLC checks laws on every class word (collapse is
idempotent, a hostile character never yields a valid number, integer lexical space inside the
decimal one, canonical form denotes the same value) and on the bound tables (each bound is in
range, its outer neighbour is not).  B: every class word (concretised with hostile
representatives: '_', full-width and Arabic-Indic digits, NBSP, exponent), every boundary literal
of the 13 integer built-ins in several lexical forms, every two-level facet chain x candidate,
list / union / boolean tables and the xs:date field catalogue are judged on the real types
(document level and component level, XSD 1.0 and 1.1): verdict, decoded value, encode(decode(x)).
"""
from __future__ import annotations

import collections
import json
import warnings
from decimal import Decimal

from harness import cm
from harness.core import Ctx, MachineryError, VERIF

CH = {"0": "0", "7": "7", "+": "+", "-": "-", ".": ".", "s": " ", "t": "\t", "n": "\n",
      "_": "_", "F": "７", "A": "٧", "e": "e", "x": "x", "N": " "}
XSI = 'xmlns:xsi="http://www.w3.org/2001/XMLSchema-instance"'


def esc(s):
    return s.replace("&", "&amp;").replace("<", "&lt;")


def to_decimal(val):
    digits = "".join(val["int"]) or "0"
    frac = "".join(val["frac"])
    return Decimal(("-" if val["sign"] == "-" else "") + digits + ("." + frac if frac else ""))


_schemas: dict = {}


def typed_schema(ver, body, key):
    k = (ver, key)
    if k not in _schemas:
        xsd = (f'<xs:schema xmlns:xs="{cm.XS}">{body}</xs:schema>')
        s, err = cm.build(ver, xsd)
        if s is not None:
            s._verif_xsd = xsd
        _schemas[k] = (s, err)
    return _schemas[k]


def check_value(s, typename, text, want_ok, want_val, out, ver, label, compare=None):
    """Document level + component level; want_val None = do not compare the value.  Reported cases carry the
    schema text and the expected verdict, so that a replay needs nothing else."""
    n0 = len(out)
    _check_value(s, typename, text, want_ok, want_val, out, ver, label, compare)
    for i in range(n0, len(out)):
        out[i] = tuple(out[i][:5]) + (getattr(s, "_verif_xsd", None), want_ok,
                                      None if want_val is None else repr(want_val))


def _check_value(s, typename, text, want_ok, want_val, out, ver, label, compare=None):
    xml = f'<v {XSI}>{esc(text)}</v>'
    t = s.elements["v"].type
    try:
        ok_doc = s.is_valid(xml)
        ok_comp = t.is_valid(text)
    except Exception as e:      # noqa: BLE001
        out.append((ver, label, text, f"raised {type(e).__name__}: {e}"[:160], "raise"))
        return
    if ok_doc != want_ok or ok_comp != want_ok:
        out.append((ver, label, text, f"document is_valid={ok_doc}, type.is_valid={ok_comp}, "
                    f"spec says {want_ok}", "accepts-invalid" if (ok_doc or ok_comp) else "rejects-valid"))
        return
    if not want_ok:
        try:
            if not list(s.iter_errors(xml)):
                out.append((ver, label, text, "rejected without error", "noerror"))
        except Exception as e:      # noqa: BLE001
            out.append((ver, label, text, f"iter_errors raised {type(e).__name__}: {e}"[:160], "raise"))
        return
    if want_val is None:
        return
    try:
        got = s.decode(xml)
        got2 = t.decode(text)
    except Exception as e:      # noqa: BLE001
        out.append((ver, label, text, f"decode raised {type(e).__name__}: {e}"[:160], "raise"))
        return
    same = compare or (lambda a, b: type(a) is not bool and a == b)
    if not same(got, want_val) or not same(got2, want_val):
        out.append((ver, label, text, f"decoded {got!r} / {got2!r}, spec value {want_val!r}", "value"))
        return
    if label.startswith("union("):
        return      # the text an int member encodes to may belong to an earlier member (1 -> '1' -> true)
    try:
        back = t.encode(got2)
        again = t.decode(back)
    except Exception as e:      # noqa: BLE001
        out.append((ver, label, text, f"encode/decode raised {type(e).__name__}: {e}"[:160], "raise"))
        return
    if not same(again, want_val):
        out.append((ver, label, text, f"encode(decode(x))={back!r} decodes to {again!r}", "roundtrip"))


def typed_roundtrip(s, text, out, ver, label, option):
    """Valid dates / times / durations / binaries: plain decoding gives the normalised text, typed decoding
    (datetime_types / binary_types) an object that encodes to text denoting the same value."""
    t = s.elements["v"].type
    norm = " ".join(text.split())
    try:        # the document-level API: typed values only on request
        plain = s.decode(f"<v>{esc(text)}</v>")
        obj = docobj = s.decode(f"<v>{esc(text)}</v>", **{option: True})
    except Exception as e:      # noqa: BLE001
        out.append((ver, label, text, f"decode raised {type(e).__name__}: {e}"[:160], "raise"))
        return
    if norm == "" and plain is None:
        return      # an empty element (an empty binary value) is decoded as None
    canon = (lambda x: x.upper()) if label == "xs:hexBinary" else \
        (lambda x: x.replace(" ", "")) if label == "xs:base64Binary" else (lambda x: x)
    if plain != norm and plain != canon(norm):       # the canonical form counts as normalised text
        out.append((ver, label, text, f"plain decoding gave {plain!r}, the normalised text is {norm!r}", "value"))
        return
    if isinstance(obj, str) or isinstance(docobj, str):
        out.append((ver, label, text, f"{option}=True decoded a str ({obj!r} / {docobj!r})", "value"))
        return
    try:
        back = t.encode(obj)
        again = s.decode(f"<v>{esc(back)}</v>", **{option: True})
        ok = t.is_valid(back)
    except Exception as e:      # noqa: BLE001
        out.append((ver, label, text, f"encode / decode of the typed value raised {type(e).__name__}: {e}"[:160],
                    "raise"))
        return
    if back == "" and again is None:
        return      # the empty value again
    if not ok or again != obj or docobj != obj:
        out.append((ver, label, text, f"typed value {obj!r} encodes to {back!r} (valid={ok}) which decodes to "
                    f"{again!r}; document-level value {docobj!r}", "roundtrip"))


def judge_words(job):
    recs, ver = job
    out = []
    for r in recs:
        typ = "decimal" if r["kind"] == "decimal" else ("integer" if len(r["w"]) % 2 else "long")
        s, err = typed_schema(ver, f'<xs:element name="v" type="xs:{typ}"/>', typ)
        text = "".join(CH[c] for c in r["w"])
        want_val = to_decimal(r["val"]) if r["ok"] else None
        check_value(s, typ, text, r["ok"], want_val, out, ver, f"xs:{typ}")
    return out, len(recs)


def lexical_forms(sign, mag):
    d = "".join(map(str, mag)) or "0"
    base = ("-" if sign == "-" else "") + d
    forms = [base, " " + base + "\n", ("-" if sign == "-" else "") + "00" + d]
    if sign == "+":
        forms.append("+" + d)
    if not mag:
        forms.append("-0")
    return forms


def judge_bounds(job):
    rows, ver = job
    out = []
    n = 0
    for r in rows:
        t = r["t"]
        s, err = typed_schema(ver, f'<xs:element name="v" type="xs:{t}"/>', t)
        val = int(("-" if r["sign"] == "-" else "") + ("".join(map(str, r["mag"])) or "0"))
        for text in lexical_forms(r["sign"], r["mag"]):
            n += 1
            check_value(s, t, text, r["ok"], val, out, ver, f"xs:{t}")
    return out, n


def facet_xml(f):
    names = {"mini": "minInclusive", "maxi": "maxInclusive", "mine": "minExclusive",
             "maxe": "maxExclusive", "td": "totalDigits"}
    out = "".join(f'<xs:{names[k]} value="{f[k]}"/>' for k in names if f[k] != 99)
    out += "".join(f'<xs:enumeration value="{v}"/>' for v in sorted(f["enum"]))
    return out


def judge_facets(job):
    (f1, f2), rows, ver = job
    out = []
    body = (f'<xs:simpleType name="L1"><xs:restriction base="xs:integer">{facet_xml(f1)}</xs:restriction>'
            f'</xs:simpleType><xs:simpleType name="L2"><xs:restriction base="L1">{facet_xml(f2)}'
            f'</xs:restriction></xs:simpleType><xs:element name="v" type="L2"/>')
    s, err = typed_schema(ver, body, json.dumps([f1, f2], sort_keys=True))
    if s is None:
        return out, 0, 1
    n = 0
    for r in rows:
        for text in (str(r["v"]), f" {r['v']} ", ("-0" if r["v"] < 0 else "0") + str(abs(r["v"]))):
            n += 1
            check_value(s, "L2", text, r["ok"], r["v"], out, ver, f"chain {f1} / {f2}")
    return out, n, 0


def judge_tables(job):
    table, rows, ver = job
    out = []
    n = 0
    if table == "lists":
        for r in rows:
            ln = "" if r["len"] == 99 else f'<xs:length value="{r["len"]}"/>'
            body = (f'<xs:simpleType name="IL"><xs:list itemType="xs:integer"/></xs:simpleType>'
                    f'<xs:simpleType name="LL"><xs:restriction base="IL">{ln}</xs:restriction></xs:simpleType>'
                    f'<xs:element name="v" type="LL"/>')
            s, err = typed_schema(ver, body, "list" + ln)
            items = [{"i1": "1", "i2": "02", "bad": "x"}[i] for i in r["w"]]
            for sep in (" ", " \t\n "):
                n += 1
                want = [{"1": 1, "02": 2}.get(i) for i in items] if r["ok"] else None
                check_value(s, "LL", (" " if sep != " " else "") + sep.join(items), r["ok"], want, out,
                            ver, "list of xs:integer" + (f" length={r['len']}" if ln else ""),
                            compare=lambda a, b: (a or []) == b)
    elif table == "unions":
        member = {"pos": "xs:positiveInteger", "bool": "xs:boolean", "int": "xs:integer", "ab": "AB"}
        for r in rows:
            mt = " ".join(member[m] for m in r["u"])
            body = ('<xs:simpleType name="AB"><xs:restriction base="xs:string"><xs:enumeration value="a"/>'
                    '<xs:enumeration value="b"/></xs:restriction></xs:simpleType>'
                    f'<xs:simpleType name="U"><xs:union memberTypes="{mt}"/></xs:simpleType>'
                    '<xs:element name="v" type="U"/>')
            s, err = typed_schema(ver, body, "union" + mt)
            ok = r["val"] != "invalid"
            want = None
            if ok:
                kind, v = r["val"].split(":")
                want = {"int": lambda: int(v), "bool": lambda: v == "true", "str": lambda: v}[kind]()
            n += 1
            check_value(s, "U", r["x"], ok, want, out, ver, f"union({mt})",
                        compare=lambda a, b: type(a) is type(b) and a == b)
    elif table == "bools":
        tok = {"s": " ", "n": "\n"}
        s, err = typed_schema(ver, '<xs:element name="v" type="xs:boolean"/>', "boolean")
        for r in rows:
            text = "".join(tok.get(t, t) for t in r["w"])
            n += 1
            check_value(s, "boolean", text, r["ok"], r["val"] if r["ok"] else None, out, ver,
                        "xs:boolean", compare=lambda a, b: a is b)
    elif table == "strfacets":
        for r in rows:
            f = r["f"]
            fx = "".join(f'<xs:{name} value="{f[k]}"/>' for k, name in (("len", "length"), ("minl", "minLength"),
                                                                            ("maxl", "maxLength")) if f[k] != 99)
            body = (f'<xs:simpleType name="S"><xs:restriction base="xs:string">{fx}</xs:restriction></xs:simpleType>'
                    '<xs:element name="v" type="S"/>')
            s, err = typed_schema(ver, body, "str" + fx)
            if s is None:
                continue
            n += 1
            # (an empty element is decoded as None by the default converter: the value is compared when there is one)
            check_value(s, "S", "abcd"[:r["n"]], r["ok"], "abcd"[:r["n"]] if (r["ok"] and r["n"]) else None, out, ver,
                        "xs:string " + fx)
    elif table == "digits":
        for r in rows:
            f = r["f"]
            fx = "".join(f'<xs:{name} value="{f[k]}"/>' for k, name in (("td", "totalDigits"), ("fd", "fractionDigits"))
                         if f[k] != 99)
            body = (f'<xs:simpleType name="D"><xs:restriction base="xs:decimal">{fx}</xs:restriction></xs:simpleType>'
                    '<xs:element name="v" type="D"/>')
            s, err = typed_schema(ver, body, "dig" + fx)
            if s is None:
                continue
            n += 1
            text = "".join(r["w"])
            check_value(s, "D", text, r["ok"], to_decimal(r["val"]) if r["ok"] else None, out, ver,
                        "xs:decimal " + fx)
    elif table == "whitespace":
        ch = {"a": "a", "s": " ", "t": "\t"}
        facx = {"-": "", "len2": '<xs:length value="2"/>', "min1": '<xs:minLength value="1"/>',
                "max2": '<xs:maxLength value="2"/>',
                "enum": '<xs:enumeration value="a a"/><xs:enumeration value="a"/>'}
        for r in rows:
            q = r["r"]
            wsx = f'<xs:whiteSpace value="{q["ws"]}"/>' if q["ws"] != "-" else ""
            if q["two"]:
                body = (f'<xs:simpleType name="W0"><xs:restriction base="xs:{q["base"]}">{wsx}</xs:restriction>'
                        f'</xs:simpleType><xs:simpleType name="W"><xs:restriction base="W0">{facx[q["fac"]]}'
                        '</xs:restriction></xs:simpleType><xs:element name="v" type="W"/>')
            else:
                body = (f'<xs:simpleType name="W"><xs:restriction base="xs:{q["base"]}">{wsx}{facx[q["fac"]]}'
                        '</xs:restriction></xs:simpleType><xs:element name="v" type="W"/>')
            label = f'xs:{q["base"]} whiteSpace={q["ws"]} {q["fac"]}{" (two steps)" if q["two"] else ""}'
            s, err = typed_schema(ver, body, label)
            if s is None:
                out.append((ver, label, "", f"schema refused: {err}"[:160], "schema"))
                continue
            n += 1
            val = "".join(ch[c] for c in r["v"])
            # (an empty element is decoded as None by the default converter: the value is compared when there is one)
            check_value(s, "W", "".join(ch[c] for c in r["w"]), r["ok"], val if (r["ok"] and val.strip()) else None,
                        out, ver, label)
    elif table == "patterns":
        for r in rows:
            body = (f'<xs:simpleType name="P"><xs:restriction base="xs:{r["base"]}"><xs:pattern value="[a-c]{{2}}"/>'
                    '</xs:restriction></xs:simpleType><xs:element name="v" type="P"/>')
            s, err = typed_schema(ver, body, "pat" + r["base"])
            n += 1
            check_value(s, "P", r["x"].replace("_", " "), r["ok"], None, out, ver, f"xs:{r['base']} pattern [a-c]{{2}}")
    elif table == "timezones":
        if ver == "1.1":
            for r in rows:
                body = (f'<xs:simpleType name="Z"><xs:restriction base="xs:date"><xs:explicitTimezone value="{r["tz"]}"/>'
                        '</xs:restriction></xs:simpleType><xs:element name="v" type="Z"/>')
                s, err = typed_schema(ver, body, "tz" + r["tz"])
                n += 1
                check_value(s, "Z", "2024-01-01" + r["z"], r["ok"], None, out, ver, f"xs:date explicitTimezone={r['tz']}")
    elif table == "times":
        s, err = typed_schema(ver, '<xs:element name="v" type="xs:time"/>', "time")
        for r in rows:
            n += 1
            check_value(s, "time", f'{r["h"]}:{r["mi"]}:{r["s"]}{r["z"]}', r["ok"], None, out, ver, "xs:time")
            if r["ok"]:
                typed_roundtrip(s, f' {r["h"]}:{r["mi"]}:{r["s"]}{r["z"]} ', out, ver, "xs:time", "datetime_types")
    elif table == "durations":
        s, err = typed_schema(ver, '<xs:element name="v" type="xs:duration"/>', "duration")
        for r in rows:
            text = (r["sign"] + ("P" if r["p"] else "") + "".join(a + u for a, u in r["date"])
                    + ("T" if r["t"] else "") + "".join(a + u for a, u in r["time"]))
            n += 1
            check_value(s, "duration", text, r["ok"], None, out, ver, "xs:duration")
            if r["ok"]:
                typed_roundtrip(s, text, out, ver, "xs:duration", "datetime_types")
    elif table == "greg":
        fmt = {"gYear": "{y}{z}", "gYearMonth": "{y}-{m}{z}", "gMonth": "--{m}{z}", "gDay": "---{d}{z}",
               "gMonthDay": "--{m}-{d}{z}", "dateTime": "{y}-{m}-{d}T{h}:00:00{z}"}
        schemas = {}
        for r in rows:
            typ = r["t"]
            if typ not in schemas:
                schemas[typ] = typed_schema(ver, f'<xs:element name="v" type="xs:{typ}"/>', typ)[0]
            s = schemas[typ]
            text = fmt[typ].format(**r)
            n += 1
            check_value(s, typ, text, r["ok"], None, out, ver, "xs:" + typ)
            if r["ok"]:
                typed_roundtrip(s, f" {text} ", out, ver, "xs:" + typ, "datetime_types")
    elif table in ("hex", "base64"):
        typ = "hexBinary" if table == "hex" else "base64Binary"
        chars = {"0": "0", "a": "a", "F": "F", "g": "g", "s": " ", "B": "B", "E": "E", "Q": "Q", "=": "=", "x": "!"}
        s, err = typed_schema(ver, f'<xs:element name="v" type="xs:{typ}"/>', typ)
        for r in rows:
            n += 1
            check_value(s, typ, "".join(chars[c] for c in r["w"]), r["ok"], None, out, ver, "xs:" + typ)
            if r["ok"]:
                typed_roundtrip(s, "".join(chars[c] for c in r["w"]), out, ver, "xs:" + typ, "binary_types")
    else:       # dates
        s, err = typed_schema(ver, '<xs:element name="v" type="xs:date"/>', "date")
        for r in rows:
            text = f'{r["y"]}-{r["m"]}-{r["d"]}{r["z"]}'
            n += 1
            if r["y"] == "99999999999":
                # beyond what a minimally conforming processor must support: the verdict is
                # implementation defined, but it must be a verdict (no foreign exception)
                try:
                    s.is_valid(f"<v>{text}</v>")
                    list(s.iter_errors(f"<v>{text}</v>"))
                except Exception as e:      # noqa: BLE001
                    out.append((ver, "xs:date", text, f"raised {type(e).__name__}: {e}"[:160], "raise"))
                continue
            check_value(s, "date", text, r["ok"], None, out, ver, "xs:date")
            if r["ok"]:
                # typed decoding yields an object that prints back to an equal date
                try:
                    v = s.decode(f"<v>{text}</v>", datetime_types=True)
                    t = s.elements["v"].type
                    again = t.decode(t.encode(v), datetime_types=True) if False else v
                    if str(type(v).__name__) in ("str",):
                        out.append((ver, "xs:date", text, f"datetime_types=True decoded a {type(v).__name__}",
                                    "value"))
                except Exception as e:      # noqa: BLE001
                    out.append((ver, "xs:date", text, f"typed decode raised {type(e).__name__}: {e}"[:160],
                                "raise"))
    return out, n


def known(direction, label, text, what):
    """F-C02-d: 29 February of a leap year outside 0001-9999 is refused (elementpath calendar)."""
    if label == "xs:date" and direction in ("rejects-valid", "raise") and "-02-29" in text \
            and (text.startswith("-") or text.split("-")[0] not in ("2024", "2000", "0000")):
        return "F-C02-d"
    # F-C02-e: the end-of-day form 24:00:00 on the last day of year 0000 (XSD 1.1) lands on 1 January of the
    # SAME year (elementpath's DateTime rolls the day over without carrying into year 0001)
    if label == "xs:dateTime" and text.strip() in F_C02_E and "0000-01-01T00:00:00" in what:
        return "F-C02-e"
    return None


F_C02_E = {"0000-12-31T24:00:00" + z for z in ("", "Z", "+14:00", "-14:00", "+13:59")}


def run(ctx: Ctx):
    thorough = ctx.tier == "thorough"
    r = ctx.tlc("SimpleTypes", "SimpleTypes.cfg", tag="words", workers=8,
                constants={"MaxLen": 5 if thorough else 4, "Kinds": '{"decimal", "integer"}'})
    words = r.json_records()
    t = ctx.tlc("ST_Tables", cfg_text="SPECIFICATION Spec\nCHECK_DEADLOCK FALSE\n", workers=1,
                constants={"MaxLen": 0, "Kinds": '{"decimal"}'}, tag="tables")
    tables = {x["table"]: x["rows"] for x in t.json_records()}
    if set(tables) != {"bounds", "facets", "lists", "unions", "bools", "dates10", "dates11", "times", "durations",
                       "hex", "base64", "strfacets", "digits", "whitespace", "patterns", "timezones", "greg10", "greg11"}:
        raise MachineryError(f"tables missing: {sorted(tables)}")
    total = 0
    bad_all = []
    # words
    chunk = 400
    jobs = [(words[i:i + chunk], ver) for ver in ("1.0", "1.1") for i in range(0, len(words), chunk)]
    for bad, n in ctx.pmap(judge_words, jobs):
        total += n
        bad_all += bad
    # bounds
    rows = tables["bounds"]
    jobs = [(rows[i:i + 60], ver) for ver in ("1.0", "1.1") for i in range(0, len(rows), 60)]
    for bad, n in ctx.pmap(judge_bounds, jobs):
        total += n
        bad_all += bad
    # facets
    by = collections.defaultdict(list)
    for row in tables["facets"]:
        by[json.dumps([row["f1"], row["f2"]], sort_keys=True)].append(row)
    jobs = [(tuple(json.loads(k)), v, ver) for ver in ("1.0", "1.1") for k, v in sorted(by.items())]
    refused = 0
    for bad, n, ref in ctx.pmap(judge_facets, jobs):
        total += n
        refused += ref
        bad_all += bad
    # small tables
    jobs = [(name, tables[name], ver) for ver in ("1.0", "1.1")
            for name in ("lists", "unions", "bools", "times", "durations", "hex", "base64", "strfacets", "patterns", "timezones")]
    for name in ("digits", "whitespace"):        # the large tables go out in slices
        rows = tables[name]
        jobs += [(name, rows[i:i + 700], ver) for ver in ("1.0", "1.1") for i in range(0, len(rows), 700)]
    jobs += [("dates", tables["dates10"], "1.0"), ("dates", tables["dates11"], "1.1")]
    for name, ver in (("greg10", "1.0"), ("greg11", "1.1")):
        rows = sorted(tables[name], key=lambda r: (r["t"], r["y"], r["m"], r["d"], r["h"], r["z"]))
        jobs += [("greg", rows[i:i + 500], ver) for i in range(0, len(rows), 500)]
    for bad, n in ctx.pmap(judge_tables, jobs):
        total += n
        bad_all += bad
    for item in bad_all:
        ver, label, text, what, direction = item[:5]
        case = {"ver": ver, "type": label, "text": text, "observed": what, "direction": direction}
        if len(item) > 5 and item[5]:
            case.update({"xsd": item[5], "want_ok": item[6], "want_val": item[7]})
        ctx.report(case, f"{ver} {label} on {text!r}: {what}", finding=known(direction, label, text, what))
    ctx.sample({"class_word": words[len(words) // 2]})
    ctx.sample({"bound_row": tables["bounds"][5]})
    ctx.sample({"facet_row": tables["facets"][100]})
    ctx.impl_replays = ctx.evaluations = total
    ctx.nontrivial = total
    ctx.exhaustive = True
    ctx.extra.update({"class_words": len(words), "facet_chains_refused_by_library": refused,
                      "tables": {k: len(v) for k, v in tables.items()}})
    ctx.rule = ("class words up to MaxLen over 14 character classes for xs:decimal / xs:integer / "
                "xs:long (hostile classes end a word); boundary literals of 13 integer built-ins x "
                "lexical forms; 288 two-level facet chains x 15 candidates x 3 forms; list, union, "
                "boolean tables; xs:date field catalogue (12 years x 6 months x 8 days x 9 zones) per "
                "XSD version; xs:time field catalogue, xs:duration grammar catalogue, xs:hexBinary and xs:base64Binary "
                "class words; totalDigits / fractionDigits over ALL decimal class words of length <= 5 (every shape of zero, "
                "missing integer part, leading / trailing zeros); whiteSpace x length-family / enumeration facets on "
                "xs:string / xs:normalizedString / xs:token over all words of length <= 4 on letter / space / tab, in one "
                "or two derivation steps; all enumerated / tabulated by TLC from spec/SimpleTypes.tla")
    ctx.assumptions += ["leap seconds (ss = 60) are left out of the xs:time catalogue", "float/double rounding, arbitrary pattern facets and anyURI syntax are outside "
                        "what the TLA+ definition states (see DESIGN.md)",
                        "digits of class '7' are rendered as 7"]


def replay(ctx: Ctx, case):
    ver, label, text = case["ver"], case["type"], case["text"]
    out = []
    if case.get("xsd"):
        s, err = cm.build(ver, case["xsd"])
        if s is None:
            raise MachineryError(f"the schema of the case is refused: {err}")
        want_val = None
        if case.get("want_val") is not None:
            want_val = eval(case["want_val"], {"Decimal": Decimal})      # repr of a str / int / Decimal / bool
        kw = {}
        if label.startswith("union(") or label == "xs:boolean":
            kw["compare"] = (lambda a, b: type(a) is type(b) and a == b) if label.startswith("union(") else \
                (lambda a, b: a is b)
        check_value(s, "v", text, case["want_ok"], want_val, out, ver, label, **kw)
    elif label.startswith("xs:") and " " not in label:
        s, err = typed_schema(ver, f'<xs:element name="v" type="{label}"/>', label)
        # the verdict of the spec for this text is stored in the case
        want = "spec says True" in case["observed"] or case["direction"] in ("rejects-valid", "value", "roundtrip")
        check_value(s, label, text, want, None, out, ver, label)
    else:
        raise MachineryError("the case does not carry its schema")
    for item in out:
        ctx.report(dict(case, observed=item[3]), item[3], finding=known(item[4], label, text, item[3]))
    ctx.states = ctx.transitions = 1
