"""C10 - validation results never depend on what the schema object processed before.

Spec: spec/History.tla.  A: the intended variant (verdict = function of the document) satisfies
HistoryIndependent; the implementation-shaped variant (xsi:type recorded per element, selectors
widened only for the identities enabled at first sight) is refuted by TLC with a 2-call history.
B: every call history TLC enumerates (5 operations x 6 documents, MaxCalls calls) is replayed on ONE
long-lived schema object; after every call the verdict, the errors and the data are compared with
the same call on a fresh schema.  A disagreement that is exactly what the implementation-shaped
variant predicts is the known finding F-C10-a; anything else is a violation.  Seeded histories over
the pool schemas (content models, attributes, xsi:type/nil, identities; strict failures, lazy runs,
stop-validation hooks, skip-mode decoding, to_objects; random and pair-complete) look for any other
cross-call residue.
"""
from __future__ import annotations

from harness.core import stable
import collections
import json
import random
import warnings

from harness import cm, pool
from harness.core import Ctx, MachineryError

XSI = 'xmlns:xsi="http://www.w3.org/2001/XMLSchema-instance"'
XSD = f'''<xs:schema xmlns:xs="{cm.XS}">
<xs:complexType name="T1"><xs:sequence/></xs:complexType>
<xs:complexType name="T2"><xs:complexContent><xs:extension base="T1"><xs:sequence>
  <xs:element name="c" maxOccurs="unbounded"><xs:complexType><xs:attribute name="k" type="xs:integer"/></xs:complexType></xs:element>
</xs:sequence></xs:extension></xs:complexContent></xs:complexType>
<xs:element name="X"><xs:complexType><xs:sequence><xs:element ref="e" maxOccurs="unbounded"/></xs:sequence></xs:complexType>
  <xs:unique name="UX"><xs:selector xpath=".//c"/><xs:field xpath="@k"/></xs:unique></xs:element>
<xs:element name="Y"><xs:complexType><xs:sequence><xs:element ref="e" maxOccurs="unbounded"/></xs:sequence></xs:complexType>
  <xs:unique name="UY"><xs:selector xpath=".//c"/><xs:field xpath="@k"/></xs:unique></xs:element>
<xs:element name="e" type="T1"/>
</xs:schema>'''


def doc_xml(d):
    root = "X" if d["id"] == "I1" else "Y"
    if d["retyped"]:
        kids = '<c k="1"/><c k="01"/>' if d["dup"] else '<c k="1"/><c k="2"/>'
        return f'<{root} {XSI}><e xsi:type="T2">{kids}</e></{root}>'
    return f"<{root} {XSI}><e/></{root}>"


def call(schema, op, xml):
    """-> (invalid?, detail) ; detail = comparable description of the whole result."""
    import xmlschema

    def keys(errs):
        return [(e.path, stable(e.reason)[:120]) for e in errs]
    if op == "is_valid":
        v = schema.is_valid(xml)
        return (not v), ("valid", v)
    if op == "iter_errors":
        errs = list(schema.iter_errors(xml))
        return bool(errs), ("errors", keys(errs))
    if op == "decode_lax":
        data, errs = schema.decode(xml, validation="lax")
        return bool(errs), ("lax", repr(data), keys(errs))
    if op == "decode_skip":
        return False, ("skip", repr(schema.decode(xml, validation="skip")))
    if op == "validate":
        try:
            schema.validate(xml)
            return False, ("validate", None)
        except xmlschema.XMLSchemaValidationError as e:
            return True, ("validate", (e.path, stable(e.reason)[:120]))
    if op == "lazy":
        errs = list(schema.iter_errors(xmlschema.XMLResource(xml, lazy=True)))
        return bool(errs), ("lazy", keys(errs))
    if op == "objects":
        try:
            obj, errs = schema.to_objects(xml, validation="lax")
            return bool(errs), ("objects", repr(obj)[:200], keys(errs))
        except xmlschema.XMLSchemaValidationError as e:
            return True, ("objects-raised", stable(e.reason)[:120])
    if op == "hook":
        seen = []

        def stop(elem, xsd_element):
            seen.append(elem.tag)
            return len(seen) > 1          # stop validating below the second element
        errs = list(schema.iter_errors(xml, validation_hook=stop))
        return bool(errs), ("hook", keys(errs))
    if op in ("abort", "extra_abort"):
        # the APPLICATION's callback raises in the middle of the document (3rd element / 2nd simple value): the
        # call is lost, but it must leave nothing behind in the schema object
        seen = []

        def boom(elem, xsd_element):
            seen.append(elem.tag)
            if len(seen) == 3:
                raise Abort()
            return False

        def boom2(elem, xsd_element):
            seen.append(elem.tag)
            if len(seen) == 2:
                raise Abort()
            return iter(())
        try:
            if op == "abort":
                errs = list(schema.iter_errors(xml, validation_hook=boom))
            else:
                errs = list(schema.iter_errors(xml, extra_validator=boom2))
        except Abort:
            return None, ("aborted", len(seen))
        return bool(errs), (op, keys(errs))
    raise MachineryError(op)


class Abort(Exception):
    pass


_fresh: dict = {}


def fresh_result(ver, xsds, op, xml):
    k = (ver, tuple(xsds), op, xml)
    if k not in _fresh:
        _fresh[k] = call(load(ver, xsds), op, xml)
    return _fresh[k]


def load(ver, xsds):
    with warnings.catch_warnings():
        warnings.simplefilter("ignore")
        return cm.schema_class(ver)(list(xsds) if len(xsds) > 1 else xsds[0])


def replay_history(job):
    hist, ver = job
    schema = load(ver, [XSD])
    out = []
    for i, step in enumerate(hist):
        xml = doc_xml(step["doc"])
        try:
            got, detail = call(schema, step["op"], xml)
            fgot, fdetail = fresh_result(ver, (XSD,), step["op"], xml)
        except Exception as e:      # noqa: BLE001
            out.append((i, f"raised {type(e).__name__}: {e}"[:200], None))
            break
        if fgot != step["fresh"]:
            out.append((i, f"fresh schema: invalid={fgot}, specification (intended) says {step['fresh']}", None))
            break
        if (got, detail) != (fgot, fdetail):
            finding = "F-C10-a" if (got == step["invalid"] and step["invalid"] != step["fresh"]) else None
            out.append((i, f"call {i + 1} ({step['op']} on {xml}): invalid={got} after this history, "
                        f"a fresh schema says invalid={fgot}; details {detail} vs {fdetail}"[:500], finding))
            break
    return out


def replay_alt_history(job):
    """spec/HistoryAlt.tla: histories over the documents of one alternative list, on ONE Xsd11 schema object."""
    from checks import c07
    hist, alts = job
    xsd = c07.xsd_alt(alts)
    schema = load("1.1", [xsd])
    out = []
    for i, step in enumerate(hist):
        xml = c07.xml_alt(dict(step["doc"], oj="absent"))
        try:
            got, detail = call(schema, step["op"], xml)
            fgot, fdetail = fresh_result("1.1", (xsd,), step["op"], xml)
        except Exception as e:      # noqa: BLE001
            out.append((i, f"raised {type(e).__name__}: {e}"[:200], None))
            break
        if fgot is not None and fgot != step["fresh"]:
            out.append((i, f"fresh schema on {xml}: invalid={fgot}, specification (intended) says {step['fresh']}",
                        None))
            break
        if (got, detail) != (fgot, fdetail):
            out.append((i, f"call {i + 1} ({step['op']} on {xml}): {got} {detail} after this history, "
                        f"a fresh schema says {fgot} {fdetail}"[:500], None))
            break
    return out


XSD_DEF = f'''<xs:schema xmlns:xs="{cm.XS}">
<xs:complexType name="Base"><xs:sequence/><xs:attribute name="id" type="xs:string"/></xs:complexType>
<xs:complexType name="D1"><xs:complexContent><xs:extension base="Base">
  <xs:attribute name="code" type="xs:string" default="X"/></xs:extension></xs:complexContent></xs:complexType>
<xs:complexType name="D2"><xs:complexContent><xs:extension base="Base">
  <xs:attribute name="code" type="xs:string" default="Y"/></xs:extension></xs:complexContent></xs:complexType>
<xs:element name="items"><xs:complexType><xs:sequence>
  <xs:element name="item" type="Base" maxOccurs="unbounded"/></xs:sequence></xs:complexType>
  <xs:unique name="uniqueCode"><xs:selector xpath="item"/><xs:field xpath="@code"/></xs:unique></xs:element>
</xs:schema>'''


def def_xml(d):
    def item(it):
        return f'<item xsi:type="{it["xt"]}"' + ("" if it["code"] == "absent" else f' code="{it["code"]}"') + "/>"
    return f'<items {XSI}>{item(d["i1"])}{item(d["i2"])}</items>'


def replay_def_history(job):
    """spec/HistoryDef.tla: field values from type-dependent defaults, histories on ONE schema object."""
    hist, ver = job
    schema = load(ver, [XSD_DEF])
    out = []
    for i, step in enumerate(hist):
        xml = def_xml(step["doc"])
        try:
            got, detail = call(schema, step["op"], xml)
            fgot, fdetail = fresh_result(ver, (XSD_DEF,), step["op"], xml)
        except Exception as e:      # noqa: BLE001
            out.append((i, f"raised {type(e).__name__}: {e}"[:200], None))
            break
        if fgot != step["fresh"]:
            out.append((i, f"fresh schema on {xml}: invalid={fgot}, specification (intended) says {step['fresh']}",
                        None))
            break
        if (got, detail) != (fgot, fdetail):
            out.append((i, f"call {i + 1} ({step['op']} on {xml}): invalid={got} after this history, "
                        f"a fresh schema says invalid={fgot}; details {detail} vs {fdetail}"[:500], None))
            break
    return out


OPS = ["is_valid", "iter_errors", "decode_lax", "validate", "lazy", "objects", "hook", "decode_skip", "abort",
       "extra_abort"]


def pair_complete(docs, rng, rounds):
    """A call sequence in which every ordered pair of documents occurs as two consecutive calls (per round,
    with the operations of the two calls rotating through all ordered pairs of operations)."""
    docs = docs[:6]
    pairs = [(a, b) for a in docs for b in docs]
    ops = [(a, b) for a in OPS for b in OPS]
    rng.shuffle(ops)
    seq, k = [], 0
    for _ in range(rounds):
        rng.shuffle(pairs)
        for a, b in pairs:
            oa, ob = ops[k % len(ops)]
            k += 1
            seq += [(oa, a), (ob, b)]
    return seq


def pool_history(job):
    ver, xsds, docs, seed, length = job
    rng = random.Random(seed)
    schema = load(ver, xsds)
    out = []
    steps = []
    plan = [(rng.choice(OPS), rng.choice(docs)) for _ in range(8)] if length <= 8 else \
        pair_complete(docs, rng, length // 64 or 1)
    for i, (op, xml) in enumerate(plan):
        steps.append((op, xml))
        try:
            got = call(schema, op, xml)
            want = fresh_result(ver, tuple(xsds), op, xml)
        except Exception as e:      # noqa: BLE001
            out.append((steps, f"raised {type(e).__name__}: {e}"[:200]))
            break
        if got != want:
            out.append((steps, f"call {i + 1} ({op}): {got} after this history, fresh schema: {want}"[:500]))
            break
    return out, len(steps)


ALT_LISTS = [[["ja", "TA"], ["b", "TB"], ["default", "TC"]],
             [["b", "TB"], ["jb", "TA"]],
             [["nj", "TA"], ["b", "TB"], ["default", "TC"]]]        # = AltLists of spec/HistoryAlt.tla


def run(ctx: Ctx):
    thorough = ctx.tier == "thorough"
    n = 3
    ctx.tlc("History", "History.cfg", constants={"Variant": '"intended"', "MaxCalls": n}, tag="A-intended")
    refuted = ctx.tlc("History", "History.cfg", constants={"Variant": '"impl"', "MaxCalls": n},
                      expect_violation=True, count=False, tag="A-impl")
    if "HistoryIndependent" not in refuted.invariant_violated:
        raise MachineryError("the implementation-shaped variant is no longer refuted: HistoryIndependent vacuous?")
    e = ctx.tlc("History", "History_emit.cfg", constants={"Variant": '"impl"', "MaxCalls": n}, tag="emit",
                count=False)
    hists = [r["hist"] for r in e.json_records()]
    if not thorough:
        hists = hists[::3]
    jobs = [(h, ver) for h in hists for ver in ("1.0", "1.1")]
    for (h, ver), bad in zip(jobs, ctx.pmap(replay_history, jobs)):
        for i, what, finding in bad:
            ctx.report({"driver": "spec-history", "ver": ver, "history": h, "step": i, "observed": what},
                       f"{ver}: {what}", finding=finding)
    ctx.impl_replays = len(jobs)
    # second scenario: type alternatives reading an inherited attribute, aborted calls (spec/HistoryAlt.tla)
    nalt = 0
    for al in (1, 2, 3):
        consts = {"MaxCalls": 2, "AltList": al}
        ctx.tlc("HistoryAlt", "HistoryAlt.cfg", constants=dict(consts, Variant='"intended"'), tag=f"alt{al}-intended")
        for variant in ("memo", "residue"):
            ref = ctx.tlc("HistoryAlt", "HistoryAlt.cfg", constants=dict(consts, Variant=f'"{variant}"'),
                          expect_violation=True, count=False, tag=f"alt{al}-{variant}")
            if "HistoryIndependent" not in ref.invariant_violated:
                raise MachineryError(f"HistoryAlt variant {variant} is not refuted: HistoryIndependent vacuous?")
        e = ctx.tlc("HistoryAlt", "HistoryAlt_emit.cfg",
                    constants={"MaxCalls": 3 if thorough else 2, "AltList": al, "Variant": '"intended"'},
                    tag=f"alt{al}-emit", count=False)
        recs = e.json_records()
        alts = ALT_LISTS[al - 1]
        ahists = [r["hist"] for r in recs]
        if thorough:
            ahists = ahists[::5]
        ajobs = [(h, alts) for h in ahists]
        for (h, _), bad in zip(ajobs, ctx.pmap(replay_alt_history, ajobs)):
            for i, what, finding in bad:
                ctx.report({"driver": "alt-history", "ver": "1.1", "alts": alts, "history": h, "step": i,
                            "observed": what}, f"1.1 alternatives {alts}: {what}", finding=finding)
        nalt += len(ajobs)
        ctx.extra[f"alt_histories_{al}"] = len(ajobs)
    ctx.impl_replays += nalt
    # third scenario: identity fields read from type-dependent defaults (spec/HistoryDef.tla)
    ctx.tlc("HistoryDef", "HistoryDef.cfg", constants={"Variant": '"intended"', "MaxCalls": 2}, tag="def-intended")
    ref = ctx.tlc("HistoryDef", "HistoryDef.cfg", constants={"Variant": '"cached"', "MaxCalls": 2},
                  expect_violation=True, count=False, tag="def-cached")
    if "HistoryIndependent" not in ref.invariant_violated:
        raise MachineryError("HistoryDef variant cached is not refuted: HistoryIndependent vacuous?")
    e = ctx.tlc("HistoryDef", "HistoryDef_emit.cfg", constants={"Variant": '"intended"', "MaxCalls": 2},
                tag="def-emit", count=False)
    dhists = sorted((r["hist"] for r in e.json_records()), key=lambda h: json.dumps(h, sort_keys=True))
    if not thorough:
        dhists = dhists[ctx.seed % 5::5]
    djobs = [(h, ver) for h in dhists for ver in ("1.0", "1.1")]
    for (h, ver), bad in zip(djobs, ctx.pmap(replay_def_history, djobs)):
        for i, what, finding in bad:
            ctx.report({"driver": "def-history", "ver": ver, "history": h, "step": i, "observed": what},
                       f"{ver} type-dependent defaults: {what}", finding=finding)
    ctx.extra["def_histories"] = len(djobs)
    ctx.impl_replays += len(djobs)
    # seeded histories over the pool schemas
    cases = pool.build_pool(ctx, scale=2)
    by = collections.defaultdict(list)
    for c in cases:
        if c["origin"] == "content-model" and not c.get("strong", True):
            continue
        by[tuple(c["xsds"])].append(c["xml"])
    groups = [(x, sorted(set(d))) for x, d in sorted(by.items()) if len(set(d)) >= 2]
    rng = random.Random(ctx.seed)
    rng.shuffle(groups)
    groups = groups[: (400 if thorough else 80)]
    pjobs = [(ver, x, d, ctx.seed * 7919 + k, 8) for k, (x, d) in enumerate(groups) for ver in ("1.0", "1.1")]
    # pair-complete histories: every ordered pair of documents of a group as two consecutive calls
    rng.shuffle(groups)
    simple = [g for g in sorted(by.items()) if "simpleType" in g[0][0] and len(set(g[1])) >= 2]
    for k, (x, d) in enumerate([(x, sorted(set(d))) for x, d in simple] + groups[: (60 if thorough else 12)]):
        pjobs.append(("1.0" if k % 2 else "1.1", x, d, ctx.seed * 104729 + k, 256 if thorough else 64))
    ncalls = 0
    for (ver, x, d, seed, ln), (bad, k) in zip(pjobs, ctx.pmap(pool_history, pjobs)):
        ncalls += k
        for steps, what in bad:
            ctx.report({"driver": "pool-history", "ver": ver, "xsds": list(x), "steps": steps, "seed": seed,
                        "observed": what}, f"{ver} pool history: {what}")
    ctx.impl_replays += len(pjobs)
    ctx.sample({"history": hists[len(hists) // 2]})
    ctx.sample({"pool_history_docs": groups[0][1][:3] if groups else None})
    ctx.evaluations = len(jobs) * n + ncalls
    ctx.nontrivial = len(jobs) + len(pjobs)
    ctx.exhaustive = thorough
    ctx.rule = ("call histories of length 3 over 5 operations x 6 documents of the xsi:type/identity scenario "
                "(27 000, every 3rd in quick) as enumerated by TLC, each replayed on one schema object and "
                "compared step by step with a fresh schema; call histories of length 2 (thorough: 3, every 5th) over "
                "4 operations (one of them aborted by the application's hook) x 18 documents of the type-alternative "
                "scenario (3 alternative lists with tests on an inherited attribute, spec/HistoryAlt.tla); plus seeded histories of 8 calls (8 operations "
                "incl. strict failures, skip-mode decoding, lazy runs, stop hooks, to_objects) over pool schemas, "
                "plus pair-complete histories (every ordered pair of up to 6 documents of a schema as consecutive "
                "calls, operation pairs rotating; operations include calls aborted by an exception of the application's "
                "validation_hook / extra_validator) over all simple-type schemas and a seeded selection of the others")
    ctx.assumptions += ["the fresh schema's answer is the reference (and is itself compared with the "
                        "specification's intended verdict in the scenario)",
                        "pool content-model schemas that are not strongly deterministic are left out "
                        "(C01's findings would add noise, not history dependence)"]


def replay(ctx: Ctx, case):
    if case.get("driver") == "spec-history":
        for i, what, finding in replay_history((case["history"], case["ver"])):
            ctx.report(dict(case, observed=what), what, finding=finding)
    elif case.get("driver") == "alt-history":
        for i, what, finding in replay_alt_history((case["history"], case["alts"])):
            ctx.report(dict(case, observed=what), what, finding=finding)
    elif case.get("driver") == "def-history":
        for i, what, finding in replay_def_history((case["history"], case["ver"])):
            ctx.report(dict(case, observed=what), what, finding=finding)
    else:
        schema = load(case["ver"], case["xsds"])
        for i, (op, xml) in enumerate(case["steps"]):
            got = call(schema, op, xml)
            want = fresh_result(case["ver"], tuple(case["xsds"]), op, xml)
            if got != want:
                ctx.report(case, f"call {i + 1} ({op}): {got} vs fresh {want}"[:400])
                break
    ctx.states = max(ctx.states, 1)
    ctx.transitions = max(ctx.transitions, 1)
