"""C13 - defused parsing refuses every entity declaration before any expansion.

Spec: spec/Defuse.tla (prolog item machine: DtdItem / StartTag; Applies(defuse, locality);
invariants RefusedBeforeExpansion, HarmlessParsed, NeverMeansNever).  B: every (defuse mode,
locality, prolog of <= 2 items) TLC enumerates is rendered as a real document and supplied through
every channel of that locality (text, bytes, StringIO/BytesIO, seekable and non-seekable binary
streams, non-seekable text stream, path, file URL, http URL through a stub opener), as an instance,
as a main schema and as an included schema; expected: the library's forbidden-resource error iff the
spec says refused, otherwise the same tree as without defusing; no external file is ever opened.
"""
from __future__ import annotations

import io
import os
import tempfile
import warnings
import xml.etree.ElementTree as ET

from harness import cm
from harness.core import Ctx
from checks import c12

DECL = {
    "intEntity": '<!ENTITY e "PAYLOAD">',
    "extEntity": '<!ENTITY x SYSTEM "secret.txt">',
    "paramEntity": '<!ENTITY % p "<!-- pe -->">',
    "unparsedEntity": '<!NOTATION n SYSTEM "n"><!ENTITY u SYSTEM "u.gif" NDATA n>',
    "harmlessDecl": '<!ATTLIST r a CDATA #IMPLIED>',
    "comment": '<!-- c -->',
    "pi": '<?p i?>',
}
CHANNELS = {"none": ["text", "bytes", "stringio", "bytesio", "rawstream", "bufstream", "textstream"],
            "local": ["path", "fileurl", "text@local", "bytesio@local"],
            "remote": ["http", "text@remote", "bytes@remote", "bytesio@remote", "text@ftps", "bytes@s3", "bytesio@https"]}
# "x@ftps" / "x@s3" / "x@https": the base URL has another non-local scheme - Defuse.tla's locality "remote" is
# EVERY scheme that is not local (no scheme, file, a drive letter), not a list of well-known ones
SCHEME_BASE = {"ftps": "ftps://verif.invalid/base/", "s3": "s3://bucket/base/", "https": "https://verif.invalid/base/"}
# channel "x@local" / "x@remote": data supplied with a base_url of that class (the data has no URL of its own: its
# locality is that of the base URL)


class Raw(io.RawIOBase):
    """A non-seekable raw binary stream."""

    def __init__(self, data):
        self._b = io.BytesIO(data)

    def readable(self):
        return True

    def seekable(self):
        return False

    def readinto(self, b):
        return self._b.readinto(b)


class NonSeekableText(io.TextIOBase):
    def __init__(self, text):
        self._s = io.StringIO(text)

    def readable(self):
        return True

    def seekable(self):
        return False

    def read(self, n=-1):
        return self._s.read(n)

    def readline(self, n=-1):
        return self._s.readline(n)


ENC = {"utf-8": ("utf-8", "UTF-8"), "utf-16": ("utf-16", "UTF-16"), "latin-1": ("latin-1", "ISO-8859-1")}


def render(prolog, role, variant, encoding="utf-8"):
    """-> document text or None when the combination cannot be written (two external subsets)."""
    ext = [k for k in prolog if k.startswith("extSubset")]
    if len(ext) > 1:
        return None
    inner = "".join(DECL[k] for k in prolog if k in DECL and k not in ("comment", "pi"))
    misc = "".join(DECL[k] for k in prolog if k in ("comment", "pi"))
    if role == "instance":
        root, body = "r", "<r>&e;</r>" if ("intEntity" in prolog) else "<r>t</r>"
    else:
        root = "xs:schema"
        body = (f'<xs:schema xmlns:xs="{cm.XS}"><xs:element name="r" type="xs:string"/></xs:schema>')
    doctype = ""
    if ext or inner:
        eid = ""
        if ext:
            eid = ' SYSTEM "ext.dtd"' if ext[0] == "extSubsetSystem" else ' PUBLIC "-//V//T" "ext.dtd"'
        doctype = f"<!DOCTYPE {root}{eid}" + (f" [{inner}]" if inner else "") + ">"
    # UTF-8 and UTF-16 (with its byte order mark) need no XML declaration, any other encoding does
    head = f'<?xml version="1.0" encoding="{ENC[encoding][1]}"?>' if (variant % 2 or encoding == "latin-1") else ""
    pad = ("<!-- " + "x" * 70000 + " -->") if variant % 5 == 4 else ""     # a prolog larger than one buffer
    return head + misc + pad + doctype + body


def base_for(channel, tmp):
    if channel.endswith("@local"):
        return "file://" + tmp + "/"
    if channel.endswith("@remote"):
        return c12.REMOTE + "/base/"
    if "@" in channel:
        return SCHEME_BASE[channel.split("@")[1]]
    return None


def source_for(channel, text, tmp, name, encoding="utf-8"):
    data = text.encode(ENC[encoding][0])
    channel = channel.split("@")[0]
    if channel == "text":
        return text
    if channel == "bytes":
        return data
    if channel == "stringio":
        return io.StringIO(text)
    if channel == "bytesio":
        return io.BytesIO(data)
    if channel == "rawstream":
        return Raw(data)
    if channel == "bufstream":
        return io.BufferedReader(Raw(data))
    if channel == "textstream":
        return NonSeekableText(text)
    path = os.path.join(tmp, name)
    with open(path, "wb") as f:
        f.write(data)
    if channel == "path":
        return path
    if channel == "fileurl":
        return "file://" + path
    url = c12.REMOTE + "/" + name
    c12.REMOTE_FILES[url.lower()] = data
    return url


def known(channel, exc, text, XMLResourceError):
    """F-C13-a: non-seekable TEXT streams cannot be defused at all; F-C13-b: a non-seekable binary
    stream whose prolog exceeds the 64 KiB look-ahead buffer cannot be rewound after the check."""
    if exc is None or not isinstance(exc, XMLResourceError):
        return None
    if channel == "textstream":
        return "F-C13-a"
    if channel in ("rawstream", "bufstream") and len(text) > 64 * 1024:
        return "F-C13-b"
    return None


def tree_shape(e):
    return (e.tag, (e.text or "").strip(), tuple(tree_shape(c) for c in e))


def judge(job):
    rec, idx = job
    c12.install_audit()
    import xmlschema
    from xmlschema.exceptions import XMLResourceForbidden, XMLResourceError
    out = []
    n = 0
    with tempfile.TemporaryDirectory(prefix="verif_c13_") as tmp:
        with open(os.path.join(tmp, "secret.txt"), "w") as f:
            f.write("SECRET")
        with open(os.path.join(tmp, "ext.dtd"), "w") as f:
            f.write('<!ENTITY fromext "EXT">')
        for role in ("instance", "schema", "included"):
            enc = rec.get("encoding", "utf-8")
            text = render(rec["prolog"], "instance" if role == "instance" else "schema", idx, enc)
            if text is None:
                continue
            for channel in CHANNELS[rec["locality"]]:
                if role == "included" and channel not in ("path", "fileurl", "http"):
                    continue
                if enc != "utf-8" and channel.split("@")[0] in ("text", "stringio", "textstream"):
                    continue        # characters have no encoding (and may not declare one)
                n += 1
                c12.REMOTE_FILES.clear()
                del c12._events[:]
                res = exc = None
                try:
                    with warnings.catch_warnings():
                        warnings.simplefilter("ignore")
                        if role == "instance":
                            res = xmlschema.XMLResource(source_for(channel, text, tmp, "doc.xml", enc),
                                                        base_url=base_for(channel, tmp),
                                                        defuse=rec["defuse"], allow="all")
                            shape = tree_shape(res.root)
                        elif role == "schema":
                            s = xmlschema.XMLSchema(source_for(channel, text, tmp, "main.xsd", enc),
                                                    base_url=base_for(channel, tmp),
                                                    defuse=rec["defuse"], allow="all")
                            shape = ("schema", sorted(s.elements))
                        else:
                            loc = source_for(channel, text, tmp, "inc.xsd", enc)
                            main = (f'<xs:schema xmlns:xs="{cm.XS}"><xs:include schemaLocation="{loc}"/>'
                                    f'</xs:schema>')
                            s = xmlschema.XMLSchema(main, defuse=rec["defuse"], allow="all", base_url=tmp)
                            shape = ("schema", sorted(s.elements))
                except xmlschema.XMLSchemaException as e:
                    exc = e
                except Exception as e:      # noqa: BLE001
                    exc = e
                fetched = [w for k, w in c12._events
                           if (k == "open" and os.path.basename(w) in ("secret.txt", "ext.dtd", "u.gif"))
                           or (k == "remote" and not w.lower().endswith(("doc.xml", "main.xsd", "inc.xsd")))]
                where = f"{role} via {channel}"
                if fetched:
                    out.append((rec, where, text, f"external resource fetched: {fetched}", None))
                    continue
                if rec["outcome"] == "refused":
                    if isinstance(exc, XMLResourceForbidden):
                        continue
                    if role == "included" and isinstance(exc, xmlschema.XMLSchemaParseError) \
                            and "forbidden" in str(exc).lower():
                        continue
                    out.append((rec, where, text, "forbidden declaration not refused: "
                                + (f"{type(exc).__name__}: {str(exc)[:120]}" if exc else f"parsed to {shape}"),
                                known(channel, exc, text, XMLResourceError)))
                    continue
                # expected: parsed like without defusing
                if exc is not None:
                    out.append((rec, where, text, f"harmless document refused: {type(exc).__name__}: "
                                f"{str(exc)[:120]}",
                                known(channel, exc, text, XMLResourceError)))
                    continue
                if role == "instance":
                    want = tree_shape(ET.fromstring(text.encode(ENC[enc][0])))
                    if shape != want:
                        out.append((rec, where, text, f"tree {shape} differs from the plain parse {want}", None))
                elif shape != ("schema", ["r"]):
                    out.append((rec, where, text, f"schema content {shape}", None))
    return out, n


def run(ctx: Ctx):
    thorough = ctx.tier == "thorough"
    r = ctx.tlc("Defuse", "Defuse.cfg", constants={"MaxItems": 3 if thorough else 2}, tag="A")
    recs = r.json_records()
    jobs = [(rec, i) for i, rec in enumerate(recs)]
    total = 0
    for bad, n in ctx.pmap(judge, jobs):
        total += n
        for rec, where, text, what, finding in bad:
            ctx.report({"spec": rec, "where": where, "document": text[:400], "observed": what},
                       f"defuse={rec['defuse']} locality={rec['locality']} prolog={rec['prolog']} {where}: {what}",
                       finding=finding)
    ctx.sample(recs[len(recs) // 3])
    ctx.sample({"document": render(recs[len(recs) // 3]["prolog"], "instance", 1)})
    ctx.impl_replays = ctx.evaluations = ctx.nontrivial = total
    ctx.exhaustive = True
    ctx.rule = ("defuse mode (4) x locality (3) x every prolog of <= MaxItems items out of 9 kinds (internal / "
                "external / parameter / unparsed entity, external subset SYSTEM / PUBLIC, harmless "
                "declaration, comment, PI) as enumerated by TLC x every channel of the locality x role "
                "(instance, main schema, included schema) x encoding of the bytes (UTF-8, UTF-16 with byte order mark, "
                "ISO-8859-1; byte channels only); XML declaration and a 70 kB prolog alternate")
    ctx.assumptions += ["external entities are declared but not referenced (expat never loads them)",
                        "remote sources are served by a stub opener"]


def replay(ctx: Ctx, case):
    bad, _ = judge((case["spec"], 1))
    for rec, where, text, what, finding in bad:
        if where == case["where"]:
            ctx.report(dict(case, observed=what), what, finding=finding)
    ctx.states = ctx.transitions = 1
