"""C07 - dynamic typing (xsi:type), substitution and nil obey derivation, block and abstract rules.

Spec: spec/Derivation.tla, written from the clause text (Element Locally Valid (Element), Type
Derivation OK (Complex), Substitution Group OK (Transitive)).  A: laws checked by TLC on the whole
configuration space (block sets are monotone, content variants separate extension from base,
restriction narrows).  B: every (schema configuration, instance) pair is rendered and validated with
XMLSchema10 and XMLSchema11; is_valid must equal the spec's verdict and a rejected instance must
yield at least one error.
"""
from __future__ import annotations

import collections
import json

from harness import cm
from harness.core import Ctx, MachineryError

FULL = {"ext": "extension", "res": "restriction", "sub": "substitution"}


def blk(name, s):
    return f' {name}="{" ".join(FULL[x] for x in sorted(s))}"' if s else ""


def seq(content):
    return "<xs:sequence>" + "".join(
        f'<xs:element name="{n}" type="xs:string"{"" if req else " minOccurs=\"0\""}/>'
        for n, req in content) + "</xs:sequence>"


def types_xsd(cfg, types, abstract):
    out = []
    for t in ("T0", "T1", "T2"):
        ab = ' abstract="true"' if abstract == t else ""
        if t == "T0":
            out.append(f'<xs:complexType name="T0"{ab}{blk("block", cfg["tblock"])}>{seq(types["T0"])}'
                       f'</xs:complexType>')
            continue
        base = "T0" if (t == "T1" or cfg["shape"] == "fork") else "T1"
        method = cfg["m1"] if t == "T1" else cfg["m2"]
        if method == "ext":
            new = types[t][len(types[base]):]
            body = f'<xs:extension base="t:{base}">{seq(new)}</xs:extension>'
        else:
            body = f'<xs:restriction base="t:{base}">{seq(types[t])}</xs:restriction>'
        out.append(f'<xs:complexType name="{t}"{ab}><xs:complexContent>{body}</xs:complexContent>'
                   f'</xs:complexType>')
    return "".join(out)


def head(cfg):
    return (f'<xs:schema xmlns:xs="{cm.XS}" targetNamespace="urn:T" xmlns:t="urn:T" '
            f'elementFormDefault="qualified"{blk("blockDefault", cfg["dflt"])}>')


def xsd_xsitype(cfg, types):
    e = (f'<xs:element name="E" type="t:T0"{blk("block", cfg["eblock"])}'
         f'{" abstract=\"true\"" if cfg["eabs"] else ""}{" nillable=\"true\"" if cfg["nillable"] else ""}/>')
    return head(cfg) + types_xsd(cfg, types, cfg["abs"]) + e + "</xs:schema>"


def xml_xsitype(inst, word):
    at = ""
    if inst["xt"] in ("T0", "T1", "T2", "unknown"):
        at += f' xsi:type="t:{inst["xt"]}"'
    elif inst["xt"] == "string":
        at += ' xsi:type="xs:string"'
    if inst["nil"] != "absent":
        at += f' xsi:nil="{inst["nil"]}"'
    return (f'<t:E xmlns:t="urn:T" xmlns:xs="{cm.XS}" '
            f'xmlns:xsi="http://www.w3.org/2001/XMLSchema-instance"{at}>'
            + "".join(f"<t:{n}>v</t:{n}>" for n in word) + "</t:E>")


def xsd_subst(cfg, types):
    els = (f'<xs:element name="H" type="t:T0"{blk("block", cfg["eblock"])}'
           f'{" abstract=\"true\"" if cfg["eabs"] else ""}/>'
           f'<xs:element name="M1" type="t:{cfg["mt1"]}" substitutionGroup="t:H"'
           f'{" block=\"substitution\"" if cfg["m1sub"] else ""}'
           f'{" abstract=\"true\"" if cfg["m1abs"] else ""}/>'
           f'<xs:element name="M2" type="t:{cfg["mt2"]}" substitutionGroup="t:M1"/>'
           f'<xs:element name="P"><xs:complexType><xs:sequence><xs:element ref="t:H"/>'
           f'</xs:sequence></xs:complexType></xs:element>')
    return head(cfg) + types_xsd(cfg, types, "none") + els + "</xs:schema>"


def xml_subst(cfg, types, child):
    t = {"H": "T0", "M1": cfg["mt1"], "M2": cfg["mt2"]}[child]
    body = "".join(f"<t:{n}>v</t:{n}>" for n, req in types[t] if req)
    return f'<t:P xmlns:t="urn:T"><t:{child}>{body}</t:{child}></t:P>'


XSI_NS = 'xmlns:xsi="http://www.w3.org/2001/XMLSchema-instance"'


def xsd_simple(cfg):
    e = (f'<xs:element name="E" type="xs:integer"{blk("block", cfg["eblock"])}'
         f'{" fixed=\"1\"" if cfg["fixed"] == "one" else ""}'
         f'{" nillable=\"true\"" if cfg["nillable"] else ""}/>')
    small = ('<xs:simpleType name="small"><xs:restriction base="xs:integer"><xs:maxInclusive value="10"/>'
             '</xs:restriction></xs:simpleType>')
    return (f'<xs:schema xmlns:xs="{cm.XS}" targetNamespace="urn:T" xmlns:t="urn:T" '
            f'elementFormDefault="qualified">{small}{e}</xs:schema>')


def xml_simple(inst):
    at = {"none": "", "int": ' xsi:type="xs:int"', "decimal": ' xsi:type="xs:decimal"',
          "string": ' xsi:type="xs:string"', "small": ' xsi:type="t:small"',
          "unknown": ' xsi:type="t:nope"'}[inst["xt"]]
    if inst["nil"] == "true":
        at += ' xsi:nil="true"'
    return f'<t:E xmlns:t="urn:T" xmlns:xs="{cm.XS}" {XSI_NS}{at}>{inst["text"]}</t:E>'


def xsd_alt(alts):
    def tdef(name, child):
        return (f'<xs:complexType name="{name}"><xs:complexContent><xs:extension base="t:T"><xs:sequence>'
                f'<xs:element name="{child}" type="xs:string"/></xs:sequence></xs:extension>'
                f'</xs:complexContent></xs:complexType>')
    tx = {"a": "@k='a'", "b": "@k='b'", "ja": "@j='a'", "jb": "@j='b'", "nj": "not(@j)"}
    al = "".join((f'<xs:alternative type="t:{t}"/>' if test == "default"
                  else f'<xs:alternative test="{tx[test]}" type="t:{t}"/>') for test, t in alts)
    return (f'<xs:schema xmlns:xs="{cm.XS}" targetNamespace="urn:T" xmlns:t="urn:T" '
            f'elementFormDefault="qualified">'
            f'<xs:complexType name="T"><xs:sequence/><xs:attribute name="k" type="xs:string"/>'
            f'<xs:attribute name="j" type="xs:string"/></xs:complexType>'
            f'{tdef("TA", "x")}{tdef("TB", "y")}{tdef("TC", "z")}'
            f'<xs:element name="E" type="t:T">{al}</xs:element>'
            f'<xs:element name="W"><xs:complexType><xs:sequence><xs:element ref="t:E"/></xs:sequence>'
            f'<xs:attribute name="j" type="xs:string" inheritable="true"/></xs:complexType></xs:element></xs:schema>')


def xml_alt(inst):
    k = "" if inst["k"] == "absent" else f' k="{inst["k"]}"'
    oj = "" if inst["oj"] == "absent" else f' j="{inst["oj"]}"'
    j = "" if inst["j"] == "absent" else f' j="{inst["j"]}"'
    body = "" if inst["child"] == "none" else f'<t:{inst["child"]}>v</t:{inst["child"]}>'
    return f'<t:W xmlns:t="urn:T"{j}><t:E{k}{oj}>{body}</t:E></t:W>'


def xsd_fixedws(cfg):
    fixed = "1" if cfg["dt"] == "integer" else "a b"
    if cfg["wrap"]:
        e = (f'<xs:element name="E" fixed="{fixed}"><xs:complexType><xs:simpleContent><xs:extension base="xs:{cfg["dt"]}">'
             '<xs:attribute name="k" type="xs:string"/></xs:extension></xs:simpleContent></xs:complexType></xs:element>')
    else:
        e = f'<xs:element name="E" type="xs:{cfg["dt"]}" fixed="{fixed}"/>'
    return (f'<xs:schema xmlns:xs="{cm.XS}" targetNamespace="urn:T" xmlns:t="urn:T" '
            f'elementFormDefault="qualified">{e}</xs:schema>')


def xml_fixedws(cfg, inst):
    if cfg["dt"] == "integer":
        text = {"same": "1", "padded": " 1 ", "tabbed": "\t1", "inner2": "1  ", "other": "2", "": ""}[inst]
    else:
        text = {"same": "a b", "padded": " a b ", "tabbed": "a&#9;b", "inner2": "a  b", "other": "a c", "": ""}[inst]
    return f'<t:E xmlns:t="urn:T">{text}</t:E>'


def judge(job):
    mode, cfg, types, cases = job
    out = []
    xsd = {"xsitype": lambda: xsd_xsitype(cfg, types), "subst": lambda: xsd_subst(cfg, types),
           "simple": lambda: xsd_simple(cfg), "alt": lambda: xsd_alt(cfg),
           "fixedws": lambda: xsd_fixedws(cfg)}[mode]()
    n = 0
    for ver in (("1.1",) if mode == "alt" else ("1.0", "1.1")):
        schema, err = cm.build(ver, xsd)
        if schema is None:
            out.append((ver, None, f"schema refused: {type(err).__name__}: {str(err)[:200]}", None, "build"))
            continue
        for inst, word, want in cases:
            xml = {"xsitype": lambda: xml_xsitype(inst, word), "subst": lambda: xml_subst(cfg, types, inst),
                   "simple": lambda: xml_simple(inst), "alt": lambda: xml_alt(inst),
                   "fixedws": lambda: xml_fixedws(cfg, inst)}[mode]()
            n += 1
            try:
                got = schema.is_valid(xml)
                nerr = len(list(schema.iter_errors(xml))) if not got else 0
            except Exception as e:      # noqa: BLE001
                out.append((ver, inst, f"raised {type(e).__name__}: {e}"[:200], xml, "raise"))
                continue
            if got != want:
                out.append((ver, inst, f"is_valid={got}, spec says {want}", xml,
                            "accepts-invalid" if got else "rejects-valid"))
            elif not got and nerr == 0:
                out.append((ver, inst, "rejected but iter_errors yields nothing", xml, "noerror"))
    return out, n


def explore(ctx: Ctx, mode, small=False):
    r = ctx.tlc("Derivation", "Derivation.cfg", tag=mode,
                constants={"Mode": f'"{mode}"', "Small": "TRUE" if small else "FALSE"})
    by = collections.defaultdict(list)
    types = {}
    for rec in r.json_records():
        k = json.dumps(rec["cfg"], sort_keys=True)
        types[k] = rec.get("types")
        by[k].append((rec["inst"], rec.get("word"), rec["valid"]))
    return by, types


def known(mode, cfg, inst, direction):
    """Matchers of the open findings (established on the pinned tree, see known_findings.json)."""
    # M1's effective block holds 'substitution': explicitly, or through blockDefault
    if mode == "subst" and direction == "rejects-valid" and inst == "M2" \
            and (cfg["m1sub"] or "sub" in cfg["dflt"]):
        return "F-C07-a"
    return None


def run(ctx: Ctx):
    thorough = ctx.tier == "thorough"
    total = 0
    for mode in ("xsitype", "subst", "simple", "alt", "fixedws"):
        by, types = explore(ctx, mode, small=not thorough)
        keys = sorted(by)
        jobs = [(mode, json.loads(k), types[k], by[k]) for k in keys]
        res = ctx.pmap(judge, jobs)
        for (m, cfg, ty, cases), (bad, n) in zip(jobs, res):
            total += n
            for ver, inst, what, xml, direction in bad:
                ctx.report({"mode": m, "ver": ver, "cfg": cfg, "types": ty, "inst": inst, "xml": xml,
                            "xsd": {"xsitype": lambda: xsd_xsitype(cfg, ty), "subst": lambda: xsd_subst(cfg, ty),
                                    "simple": lambda: xsd_simple(cfg), "alt": lambda: xsd_alt(cfg),
                                    "fixedws": lambda: xsd_fixedws(cfg)}[m](),
                            "observed": what},
                           f"{m} {ver}: {what} for {json.dumps(inst)} under {json.dumps(cfg)}"[:400],
                           finding=known(m, cfg, inst, direction))
        ctx.sample({"mode": mode, "cfg": jobs[len(jobs) // 2][1],
                    "cases": [(c[0], c[2]) for c in jobs[len(jobs) // 2][3][:4]]})
        ctx.extra[f"configurations_{mode}"] = len(jobs)
    ctx.impl_replays = ctx.evaluations = ctx.nontrivial = total
    ctx.exhaustive = True
    ctx.rule = ("every schema configuration (chain/fork of 3 complex types, derivation methods, one "
                "abstract type, block on the declared type / element / blockDefault, abstract and "
                "nillable element) x every instance (xsi:type in {none,T0,T1,T2,unknown,xs:string} x "
                "xsi:nil x content variant), and every substitution configuration (head, member, "
                "member of member) x child; simple-typed element (xsi:type among simple types, fixed value in "
                "another lexical form, nil) x instance; fixed values against the whiteSpace facet of 4 types (plain and as "
                "simple content) x 6 text classes; XSD 1.1 type alternatives (11 alternative lists with tests on an own and on an inherited "
                "attribute x own @k, own @j, inherited @j x content); quick uses a reduced family of block sets; both classes")
    ctx.assumptions += ["block sets only on the declared type, the element and blockDefault "
                        "(explicit blocks on intermediate types are outside the universe: XSD 1.0 and "
                        "1.1 differ there)", "complex types with element-only content"]


def replay(ctx: Ctx, case):
    mode, cfg = case["mode"], case["cfg"]
    by, types = explore(ctx, mode)
    k = json.dumps(cfg, sort_keys=True)
    cases = [c for c in by[k] if c[0] == case["inst"]]
    bad, _ = judge((mode, cfg, types[k], cases))
    for ver, inst, what, xml, direction in bad:
        if ver == case["ver"]:
            ctx.report(dict(case, observed=what), what, finding=known(mode, cfg, inst, direction))
