"""C19 - errors point at the offending node and a single fault is always reported there.

Spec: spec/Validator.tla: valid documents of a fixed schema (repeated local names with different
declarations) with at most one deviation from the single-node fault catalogue; the generator builds
the damaged document and records the target node, Near = {target, parent} and the allowed region
(ancestors and subtree of the target).  A: every target exists in the damaged document, paths are
unique.  B: every case is validated (default ElementTree parser and lxml): verdict; every error's
path, evaluated independently, selects exactly one node which is the error's element; some error
lies in Near; none outside the allowed region.
"""
from __future__ import annotations

import json
import xml.etree.ElementTree as ET

from harness import cm, vdoc
from harness.core import Ctx

_s = {}


def schema(ver):
    """'1.1i': the XSD 1.1 variant whose root carries an inheritable attribute."""
    if ver not in _s:
        _s[ver] = cm.schema_class("1.1")(vdoc.XSD11) if ver == "1.1i" else cm.schema_class(ver)(vdoc.XSD)
    return _s[ver]


def judge(job):
    recs, ver, parser = job
    out = []
    s = schema(ver)
    for rec in recs:
        xml = vdoc.render(rec["nodes"], default_ns=(len(rec["nodes"]) % 2 == 0),
                          root_attrs=' lang="en"' if ver == "1.1i" else "")
        if parser == "lxml":
            import lxml.etree as LE
            root = LE.fromstring(xml.encode())
        elif parser == "lxmlp":
            # the document is the PAYLOAD of an envelope: an lxml element that is not the top of its tree; it is
            # the validated document all the same (error paths start at it)
            import lxml.etree as LE
            env = LE.fromstring(f'<env:Envelope xmlns:env="urn:E"><env:Header/><env:Body>{xml}</env:Body>'
                                f'</env:Envelope>'.encode())
            root = env[1][0]
        else:
            root = ET.fromstring(xml)
        if parser in ("lxml", "lxmlp"):
            # lxml elements are proxies re-created on access: locate them through their parents
            def where_of(e):
                p = []
                while e.getparent() is not None and e != root:
                    par = e.getparent()
                    p.append([c for c in par if isinstance(c.tag, str)].index(e) + 1)
                    e = par
                return tuple(reversed(p))
            same = lambda a, b: a == b      # noqa: E731  (proxy equality is node identity)
        else:
            ipath = vdoc.index_paths(root)
            where_of = lambda e: ipath.get(id(e))      # noqa: E731
            same = lambda a, b: a is b      # noqa: E731
        nsmap = {"t": vdoc.T, "": vdoc.T, "x": vdoc.X}
        try:
            errors = list(s.iter_errors(root, namespaces=nsmap))
            valid = s.is_valid(root, namespaces=nsmap)
        except Exception as e:      # noqa: BLE001
            out.append((rec, ver, parser, xml, f"raised {type(e).__name__}: {e}"[:200]))
            continue
        if valid != rec["valid"] or (not errors) != rec["valid"]:
            out.append((rec, ver, parser, xml, f"is_valid={valid}, {len(errors)} errors, spec valid={rec['valid']}"))
            continue
        target = tuple(rec["target"])
        near = {tuple(p) for p in rec["near"]}
        located = []
        bad = None
        for e in errors:
            where = where_of(e.elem) if e.elem is not None else None
            if where is None:
                bad = f"error without an element of the document: {str(e.reason)[:80]}"
                break
            try:
                sel = vdoc.select(root, e.path, nsmap)
            except ValueError as ex:
                bad = str(ex)
                break
            if len(sel) != 1 or not same(sel[0], e.elem):
                bad = (f"path {e.path!r} selects {len(sel)} node(s) "
                       f"{[where_of(x) for x in sel]}, the error is about node {where}")
                break
            located.append(where)
        if bad is None and not rec["valid"]:
            if not any(w in near for w in located):
                bad = f"no error at the damaged node {target} or its parent; errors at {located}"
            else:
                outside = [w for w in located if not (w == target[:len(w)] or target == w[:len(target)])]
                if outside:
                    bad = f"errors outside the ancestors/subtree of {target}: {outside}"
        if bad:
            out.append((rec, ver, parser, xml, bad))
    return out, len(recs)


def judge_text(job):
    """Documents supplied as TEXT whose inner elements redeclare the namespace: every error path, resolved with the
    namespace map the ERROR itself carries, must select exactly the error's element, in the allowed region."""
    recs, ver = job
    out = []
    s = schema(ver)
    for rec in recs:
        xml = vdoc.render(rec["nodes"], inner_default=True)
        try:
            errors = list(s.iter_errors(xml))
        except Exception as e:      # noqa: BLE001
            out.append((rec, ver, "text", xml, f"raised {type(e).__name__}: {e}"[:200]))
            continue
        if (not errors) != rec["valid"]:
            out.append((rec, ver, "text", xml, f"{len(errors)} errors, spec valid={rec['valid']}"))
            continue
        target = tuple(rec["target"])
        for e in errors:
            root = e.root
            if e.elem is None or root is None:
                out.append((rec, ver, "text", xml, f"error without an element: {str(e.reason)[:80]}"))
                break
            ipath = vdoc.index_paths(root)
            where = ipath.get(id(e.elem))
            try:
                sel = vdoc.select(root, e.path, dict(e.namespaces or {}))
            except ValueError as ex:
                out.append((rec, ver, "text", xml, str(ex)))
                break
            if len(sel) != 1 or sel[0] is not e.elem:
                out.append((rec, ver, "text", xml, f"path {e.path!r} resolved with the error's own namespace map "
                            f"{dict(e.namespaces or {})} selects {len(sel)} node(s), the error is about node {where}"))
                break
            if where is not None and not (where == target[:len(where)] or target == where[:len(target)]):
                out.append((rec, ver, "text", xml, f"error outside the ancestors/subtree of {target}: {where}"))
                break
    return out, len(recs)


def judge_identity(job):
    """Identity-constraint errors: the path of every error selects exactly the element the error is about, and that
    element is the one Identity.tla names: the duplicate / incomplete row for key errors, the declaring element for
    dangling references, the root for unresolved IDREFs."""
    from checks import c08
    recs, ver, kind, level = job
    out, n = [], 0
    s = cm.schema_class(ver)(c08.schema_xsd(1, kind, level, "integer", "attr", "child"))
    ns = {"t": "urn:T"}
    for rec in recs:
        xml = c08.doc_xml(rec["doc"], "integer", "attr")
        root = ET.fromstring(xml)
        ipath = vdoc.index_paths(root)
        n += 1
        try:
            errors = list(s.iter_errors(root, namespaces=ns))
        except Exception as e:      # noqa: BLE001
            out.append((rec, ver, xml, f"raised {type(e).__name__}: {e}"[:200]))
            continue
        for e in errors:
            where = ipath.get(id(e.elem)) if e.elem is not None else None
            if where is None:
                out.append((rec, ver, xml, f"error without an element of the document: {str(e.reason)[:80]}"))
                break
            sel = vdoc.select(root, e.path, ns)
            if len(sel) != 1 or sel[0] is not e.elem:
                out.append((rec, ver, xml, f"path {e.path!r} selects {len(sel)} node(s), the error is about node "
                            f"{where}: {str(e.reason)[:80]}"))
                break
            reason = str(e.reason)
            scope_depth = 0 if level == "outer" else 1
            if "not found for Xsd" in reason:
                want = len(where) == scope_depth          # the element that declares the key reference
            elif "duplicated value" in reason or "missing key field" in reason:
                want = len(where) == 2 and root[where[0] - 1][where[1] - 1].tag.endswith("}k")   # a key row
            elif "IDREF" in reason:
                want = where == ()
            elif "duplicated xs:ID" in reason or "ID " in reason:
                want = len(where) == 2
            else:
                want = True
            if not want:
                out.append((rec, ver, xml, f"{reason[:80]!r} is located at node {where} ({e.path})"))
                break
    return out, n


def run(ctx: Ctx):
    thorough = ctx.tier == "thorough"
    r = ctx.tlc("Validator", "Validator.cfg", constants={"MaxItems": 2, "Double": "FALSE"}, tag="docs")
    recs = r.json_records()
    if not thorough:
        recs = recs[::1]
    jobs = []
    for ver in ("1.0", "1.1", "1.1i"):
        for parser in ("etree", "lxml", "lxmlp"):
            for i in range(0, len(recs), 100):
                jobs.append((recs[i:i + 100], ver, parser))
    total = 0
    for bad, n in ctx.pmap(judge, jobs):
        total += n
        for rec, ver, parser, xml, what in bad:
            ctx.report({"ver": ver, "parser": parser, "fault": rec["fault"], "target": rec["target"],
                        "nodes": rec["nodes"], "xml": xml, "observed": what},
                       f"{ver}/{parser} {rec['fault']}: {what}  [{xml}]")
    # text sources with inner namespace declarations
    tjobs = [(recs[i:i + 100], ver) for ver in ("1.0", "1.1") for i in range(0, len(recs), 100)]
    for bad, n in ctx.pmap(judge_text, tjobs):
        total += n
        for rec, ver, parser, xml, what in bad:
            ctx.report({"ver": ver, "parser": parser, "fault": rec["fault"], "target": rec["target"],
                        "nodes": rec["nodes"], "xml": xml, "observed": what},
                       f"{ver}/{parser} {rec['fault']}: {what}  [{xml}]")
    # identity-constraint errors (documents of spec/Identity.tla)
    from checks import c08
    ijobs = []
    for kind, level in (("key", "inner"), ("key", "outer"), ("unique", "outer")):
        consts = {"NF": 1, "KeyKind": f'"{kind}"', "Level": f'"{level}"', "MaxRows": 3, "MaxScopes": 2,
                  "RowKinds": '{"k", "f", "i", "p"}', "IdVer": '"1.0"'}
        ri = ctx.tlc("Identity", "Identity.cfg", constants=consts, tag=f"ident-{kind}-{level}", workers=4)
        irecs = [x for x in ri.json_records() if c08.canonical(x)]
        if not thorough:
            irecs = irecs[::3]
        ijobs += [(irecs[i:i + 60], ver, kind, level) for ver in ("1.0", "1.1") for i in range(0, len(irecs), 60)]
    for (_, ver, kind, level), (bad, n) in zip(ijobs, ctx.pmap(judge_identity, ijobs)):
        total += n
        for rec, ver, xml, what in bad:
            ctx.report({"ver": ver, "identity": [kind, level], "doc": rec["doc"], "xml": xml, "observed": what},
                       f"{ver} identity/{kind}/{level}: {what}  [{xml}]")
    for rec in recs[:: max(1, len(recs) // 3)][:3]:
        ctx.sample({"fault": rec["fault"], "target": rec["target"], "xml": vdoc.render(rec["nodes"])})
    ctx.impl_replays = ctx.evaluations = ctx.nontrivial = total
    ctx.exhaustive = thorough
    ctx.rule = ("every document of spec/Validator.tla with <= 2 items (flag / note / 0-2 sub quantities) x "
                "every applicable single deviation (19 kinds: bad value, missing / extra / misplaced child, "
                "missing / extra / bad attribute, stray text, at item, sub, title or root level); quick takes "
                "every 3rd; both schema classes (and XSD 1.1 with an inheritable attribute on the root) x ElementTree and lxml parsers (lxml also with the document as the payload of an envelope element); prefixed and default-namespace "
                "renderings alternate; the same documents as text with the namespace redeclared as default namespace on every "
                "child of the root (paths resolved with the namespace map the error carries); plus the documents of spec/Identity.tla: every identity-constraint error must select exactly "
                "its element, which is the offending row / the declaring element / the root")
    ctx.assumptions += ["error paths are evaluated by an independent evaluator of the step[n] path grammar",
                        "fully loaded documents only (lazy resources are C06's business)"]


def replay(ctx: Ctx, case):
    rec = {"nodes": case["nodes"], "fault": case["fault"], "target": case["target"],
           "valid": case["fault"]["dev"] in ("none", "laxok"),
           "near": [case["target"], case["target"][:-1]]}
    bad, _ = judge(([rec], case["ver"], case["parser"]))
    for rec, ver, parser, xml, what in bad:
        ctx.report(dict(case, observed=what), what)
    ctx.states = ctx.transitions = 1
