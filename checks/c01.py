"""C01 - child sequences are valid exactly when they are in the content-model language.

Spec: spec/ContentModel.tla.  A: TLC checks the configuration-set machine against the declarative
language definition (Agree) and the static against the reachability formulation of determinism.
B: every (model, word) TLC enumerates is rendered to XSD/XML and judged on XMLSchema10 and
XMLSchema11 (whole document: is_valid + error attached to the parent; visitor alone: stepped like
XsdGroup.raw_decode steps it, viability after every child, attribution of every child).
"""
from __future__ import annotations

import collections
import gzip
import json
import random

from harness import cm
from harness.core import Ctx, MachineryError, REPO, VERIF

WITNESS_FILE = VERIF / "findings" / "C01_witnesses.json.gz"


# ----------------------------------------------------------------------------- TLC side
def tlc_universe(ctx: Ctx, ver, modelset, syms, maxlen, tag, mc_models=None, workers=16):
    """-> (classification per model key, word records grouped per model key)."""
    consts = {"Ver": f'"{ver}"', "MaxLen": maxlen,
              "Syms": "{" + ", ".join(f'"{s}"' for s in syms) + "}"}
    if mc_models is not None:
        body = "{\n" + ",\n".join(cm.to_tla(m) for m in mc_models) + "}"
    else:
        body = f'Family("{modelset}")'
    files = {"MC_CM.tla": "---- MODULE MC_CM ----\nEXTENDS ContentModel\nMCModels == "
             + body + "\n====\n"}
    module = "MC_CM"
    ms = "MCModels"
    cfg_tail = "\nCONSTANT ModelSet <- " + ms + "\n"

    def cfg(name):
        return (VERIF / "spec" / name).read_text() + cfg_tail

    d = ctx.tlc(module, cfg_text=cfg("ContentModel_det.cfg"), constants=consts, files=files,
                tag=f"det-{tag}", workers=workers)
    # one run checks the invariants of the machine (Agree, PruneSubset, PruneOnlyMixed) and emits
    # every (model, word) state
    e = a = ctx.tlc(module, cfg_text=cfg("ContentModel_emit.cfg"), constants=consts, files=files,
                    tag=f"words-{tag}", workers=workers)
    cls = classify(d.json_records())
    words = collections.defaultdict(list)
    seen = set()
    for r in e.json_records():
        k = cm.mkey(r["m"])
        wk = (k, tuple(r["w"]))
        if wk in seen:
            continue
        seen.add(wk)
        words[k].append(r)
    if len(seen) != a.distinct:
        raise MachineryError(f"emitted {len(seen)} (model, word) cases for {a.distinct} states")
    if set(words) != set(cls):
        raise MachineryError("determinism run and word run cover different models")
    return cls, words


def classify(recs):
    """Aggregate the determinism exploration per model; cross-check static vs reachability."""
    by = collections.defaultdict(list)
    for r in recs:
        by[cm.mkey(r["m"])].append(r)
    out = {}
    for k, v in by.items():
        init = [r for r in v if r["init"]]
        if not init:
            raise MachineryError(f"no initial record for model {k}")
        upa = any(r["upa"] for r in v)
        st = init[0]["static"]
        # The position automaton of the unrolled model is an independent formulation.  For models
        # whose kids are all leaves both must agree exactly.  With nested counted groups two
        # copies of the SAME particle can lead to different futures ((a|b+){2,2},a? on "bba"), which
        # only the subset construction (the reachability formulation) sees: there the static test
        # is required to be sound (static alarm => reachable conflict), not complete.
        m = json.loads(k)
        flat = all(x[0] in "ehw" for x in m[1])
        if st != "n/a" and ((st == "nondet" and not upa) or (flat and st == "det" and upa)):
            raise MachineryError(f"spec inconsistency: static={st} reachability upa={upa} for {k}")
        out[k] = {"upa": upa, "mixed": any(r["mixed"] for r in v),
                  "strong": not any(r["counter"] for r in v)}
    return out


# ----------------------------------------------------------------------------- implementation side
def run_visitor(schema, word):
    """Step the ModelVisitor exactly as XsdGroup.raw_decode does. -> (viable flags, attribution,
    accepted)."""
    group = schema.elements["root"].type.content
    model = group.get_model_visitor()
    viable, attribution = [], []
    ok = True
    for a in word:
        tag = "{urn:O}o" if a == "o" else "{urn:T}" + a
        matched = None
        if ok:
            while model.element is not None:
                xsd_element = model.match_element(tag)
                if xsd_element is None:
                    errs = list(model.advance(False))
                    if errs:
                        ok = False
                        break
                    continue
                matched = model.element
                errs = list(model.advance(True))
                if errs:
                    ok = False
                break
            else:
                ok = False
            if matched is None:
                ok = False
        viable.append(ok)
        attribution.append(matched.elem.get("id") if (ok and matched is not None) else None)
    if ok and model.element is not None:
        for _ in model.stop():
            ok = False
            break
    return viable, attribution, ok


def judge_model(job):
    """One model: -> dict(skipped=..., cases=n, bad=[(ver, driver, word, what, detail)])."""
    m, recs, info, vers, variant, visitor = job
    out = {"cases": 0, "bad": [], "skipped": None, "refused": []}
    if info["upa"]:
        out["skipped"] = "spec: violates UPA (outside the property's domain)"
        return out
    xsd = cm.model_xsd(m, variant)
    for ver in vers:
        schema, err = cm.build(ver, xsd)
        if schema is None:
            out["refused"].append((ver, type(err).__name__))
            continue
        for r in recs:
            w = r["w"]
            if ver == "1.1" and info["mixed"] and r["acc"] != r["accLang"]:
                continue        # element/wildcard competition: both readings must agree to judge
            out["cases"] += 1
            xml = cm.word_xml(w)
            want = r["acc"]
            try:
                got = schema.is_valid(xml)
            except Exception as e:       # noqa: BLE001 - any escape is a disagreement
                out["bad"].append((ver, "document", w, want, f"raised {type(e).__name__}: {e}"[:200]))
                continue
            if got != want:
                out["bad"].append((ver, "document", w, want, f"is_valid={got}"))
            elif not want:
                errs = list(schema.iter_errors(xml))
                if not any(getattr(e, "elem", None) is not None
                           and e.elem.tag == "{urn:T}root" for e in errs):
                    out["bad"].append((ver, "document", w, want,
                                       "rejected without an error attached to the parent"))
            if not visitor:
                continue
            # the visitor alone
            try:
                viable, attribution, acc = run_visitor(schema, w)
            except Exception as e:       # noqa: BLE001
                out["bad"].append((ver, "visitor", w, want, f"raised {type(e).__name__}: {e}"[:200]))
                continue
            if acc != want:
                out["bad"].append((ver, "visitor", w, want, f"visitor accepted={acc}"))
            elif want:
                # attribution of every child must be one the spec allows
                for i, pid in enumerate(attribution):
                    allowed = {cm.pid_str(p) for p in r["attr"][i]}
                    if pid not in allowed:
                        out["bad"].append((ver, "visitor", w, want,
                                           f"child {i} attributed to {pid}, spec allows {sorted(allowed)}"))
                        break
    return out


# ----------------------------------------------------------------------------- findings
def load_witnesses():
    if not WITNESS_FILE.exists():
        return {}
    with gzip.open(WITNESS_FILE, "rt") as f:
        return {k: set(v) for k, v in json.load(f).items()}


def wkey(ver, driver, m, w, want):
    return f"{ver}|{driver}|{cm.model_str(m)}|{''.join(w)}|{'valid' if want else 'invalid'}"


def single_child_wrapper(m):
    """F-C01-wrap matcher: some group has exactly one child and both can repeat."""
    if m[0] in "ehw":
        return False
    if len(m[1]) == 1 and m[3] > 1 and m[1][0][3] > 1:
        return True
    return any(single_child_wrapper(k) for k in m[1])


def report(ctx: Ctx, scope, m, info, bad, witnesses, collect):
    for ver, driver, w, want, detail in bad:
        k = wkey(ver, driver, m, w, want)
        case = {"scope": scope, "ver": ver, "driver": driver, "model": m,
                "model_str": cm.model_str(m), "word": w, "spec_valid": want, "observed": detail,
                "xsd": cm.model_xsd(m), "xml": cm.word_xml(w), "strongly_deterministic": info["strong"]}
        if collect is not None:
            collect.setdefault(scope, []).append(k)
        finding = None
        if not detail.startswith("raised") and "without an error" not in detail \
                and k in witnesses.get(scope, ()):        # complete list inside the exhaustive scope
            if "attributed" in detail:
                finding = "F-C01-attr11"
            elif not want:
                finding = "F-C01-overaccept"
            elif ver == "1.1" and info["mixed"]:
                finding = "F-C01-precedence11"
            elif not info["strong"]:
                finding = "F-C01-greedy"
            else:
                finding = "F-C01-strong-reject"
        ctx.report(case, f"{ver} {driver}: {cm.model_str(m)} on '{''.join(w)}': spec "
                         f"{'valid' if want else 'invalid'}, {detail}", finding=finding)


# ----------------------------------------------------------------------------- plans
def random_models(rng, n, syms, depth, leaf_kinds):
    occs = [(1, 1), (0, 1), (0, cm.INF), (1, cm.INF), (2, 2), (1, 2), (0, 2), (0, 3), (2, 3), (3, 3)]

    def leaf():
        k = rng.choice(leaf_kinds)
        x = rng.choice(syms) if k == "e" else ("a" if k == "h" else rng.choice(["any", "other", "tns"]))
        mn, mx = rng.choice(occs)
        return [k, x, mn, mx]

    def group(d):
        kind = rng.choice("sc")
        kids = [group(d - 1) if d > 1 and rng.random() < 0.45 else leaf()
                for _ in range(rng.randint(1, 3))]
        mn, mx = rng.choice(occs[:8])
        return [kind, kids, mn, mx]
    seen, out = set(), []
    while len(out) < n:
        g = group(depth)
        k = cm.mkey(g)
        if k not in seen:
            seen.add(k)
            out.append(g)
    return out




# ----------------------------------------------------------------------------- open content (XSD 1.1)
def oc_xsd(m, mode, wc):
    """The content model m below <xs:openContent mode=...> with the wildcard wc."""
    xsd = cm.model_xsd(m)
    oc = (f'<xs:openContent mode="{mode}"><xs:any namespace="{cm.WILD[wc]}" processContents="lax"/>'
          f'</xs:openContent>')
    return xsd.replace("<xs:complexType>", "<xs:complexType>" + oc, 1)


def judge_oc(job):
    m, mode, wc, recs = job
    out = {"cases": 0, "bad": [], "refused": 0}
    schema, err = cm.build("1.1", oc_xsd(m, mode, wc))
    if schema is None:
        out["refused"] = 1
        return out
    for r in recs:
        w = r["w"]
        out["cases"] += 1
        xml = cm.word_xml(w)
        try:
            got = schema.is_valid(xml)
        except Exception as e:       # noqa: BLE001
            out["bad"].append((w, r["acc"], f"raised {type(e).__name__}: {e}"[:200]))
            continue
        if got != r["acc"]:
            out["bad"].append((w, r["acc"], f"is_valid={got}"))
        elif not got:
            errs = list(schema.iter_errors(xml))
            if not any(getattr(e, "elem", None) is not None and e.elem.tag == "{urn:T}root" for e in errs):
                out["bad"].append((w, r["acc"], "rejected without an error attached to the parent"))
    return out


def oc_phase(ctx: Ctx, witnesses, collect):
    syms = ["a", "b", "c", "o"]
    maxlen = 4 if ctx.tier == "thorough" else 3
    consts = {"Ver": '"1.1"', "MaxLen": maxlen, "Syms": "{" + ", ".join(f'"{x}"' for x in syms) + "}"}
    files = {"MC_OC.tla": '---- MODULE MC_OC ----\nEXTENDS ContentModel\nMCModels == OCFamily("OCQ")\n====\n'}
    cfg = (VERIF / "spec" / "ContentModel_oc.cfg").read_text() + "\nCONSTANT ModelSet <- MCModels\n"
    r = ctx.tlc("MC_OC", cfg_text=cfg, constants=consts, files=files, tag="opencontent", workers=8)
    # determinism of the bases (the open content wildcard takes no part in UPA)
    cls, _ = tlc_universe(ctx, "1.1", "OCQ", ["a", "b"], 1, "oc-det", workers=4)
    by = collections.defaultdict(list)
    for rec in r.json_records():
        by[(cm.mkey(rec["m"]), rec["mode"], rec["wc"])].append(rec)
    jobs = [(json.loads(k), mode, wc, recs) for (k, mode, wc), recs in sorted(by.items()) if not cls[k]["upa"]]
    st = {"types": len(jobs), "cases": 0, "refused": 0, "outside_domain": len(by) - len(jobs),
          "words_with_open_content_elements": 0}
    for (m, mode, wc, recs), res in zip(jobs, ctx.pmap(judge_oc, jobs)):
        st["cases"] += res["cases"]
        st["refused"] += res["refused"]
        st["words_with_open_content_elements"] += sum(1 for x in recs if x["acc"] and not x["plain"])
        for w, want, detail in res["bad"]:
            k = f"1.1|{mode}|{wc}|{cm.model_str(m)}|{''.join(w)}|{'valid' if want else 'invalid'}"
            if collect is not None:
                collect.setdefault("opencontent", []).append(k)
            finding = "F-C01-opencontent" if (k in witnesses.get("opencontent", ())
                                              and not detail.startswith("raised")) else None
            ctx.report({"scope": "opencontent", "ver": "1.1", "model": m, "model_str": cm.model_str(m), "mode": mode,
                        "wildcard": wc, "word": w, "spec_valid": want, "observed": detail,
                        "xsd": oc_xsd(m, mode, wc), "xml": cm.word_xml(w)},
                       f"1.1 open content {mode}/{wc}: {cm.model_str(m)} on '{''.join(w)}': spec "
                       f"{'valid' if want else 'invalid'}, {detail}", finding=finding)
    some = [x for x in r.json_records() if x["acc"] and not x["plain"]][:2]
    for x in some:
        ctx.sample({"scope": "opencontent", "model": cm.model_str(x["m"]), "mode": x["mode"], "wildcard": x["wc"],
                    "word": "".join(x["w"]), "spec_valid": x["acc"], "attribution": x["attr"]}, 18)
    return st


# ----------------------------------------------------------------------------- corpus traces (C)
CORPUS = REPO / "tests" / "test_cases"


def _mutations(root, rng, limit):
    """Single structural edits of a parsed lxml tree (in place; the returned thunk undoes the edit)."""
    parents = [e for e in root.iter() if isinstance(e.tag, str) and len([c for c in e if isinstance(c.tag, str)])]
    ops = []
    for e in parents:
        kids = [c for c in e if isinstance(c.tag, str)]
        for i in range(len(kids)):
            ops.append(("del", e, i))
            ops.append(("dup", e, i))
            if i + 1 < len(kids):
                ops.append(("swap", e, i))
        if len(kids) > 2:
            ops.append(("rot", e, 0))
    rng.shuffle(ops)
    return ops[:limit]


def _apply(op):
    import copy as _copy
    kind, e, i = op
    kids = [c for c in e if isinstance(c.tag, str)]
    if kind == "del":
        k = kids[i]
        pos = e.index(k)
        tail = k.tail
        e.remove(k)

        def undo():
            k.tail = tail
            e.insert(pos, k)
    elif kind == "dup":
        k = kids[i]
        c = _copy.deepcopy(k)
        e.insert(e.index(k) + 1, c)

        def undo():
            e.remove(c)
    elif kind == "swap":
        a, b = kids[i], kids[i + 1]
        ia, ib = e.index(a), e.index(b)
        e[ia], e[ib] = _copy.deepcopy(b), _copy.deepcopy(a)
        na, nb = e[ia], e[ib]

        def undo():
            e[ia], e[ib] = a, b
    else:
        k = kids[-1]
        pos = e.index(k)
        e.remove(k)
        e.insert(0, k)

        def undo():
            e.remove(k)
            e.insert(pos, k)
    return undo


def corpus_worker(job):
    """One corpus document: traces of the document itself and of `nmut` single-edit variants."""
    import random
    import warnings
    import lxml.etree as LET
    import xmlschema
    from harness import cmproj
    path, nmut, seed = job
    stats, out = {}, []
    warnings.simplefilter("ignore")
    try:
        loc = xmlschema.fetch_schema(path)
    except Exception:
        return [], {"no schema location": 1}
    for cls in (xmlschema.XMLSchema10, xmlschema.XMLSchema11):
        try:
            schema = cls(loc)
        except Exception:
            stats["schema not built"] = stats.get("schema not built", 0) + 1
            continue
        try:
            tree = LET.parse(path)
        except Exception:
            stats["not well-formed"] = stats.get("not well-formed", 0) + 1
            continue
        docs = [("as is", None)]
        rng = random.Random(f"{seed}:{path}")
        docs += [(op[0], op) for op in _mutations(tree.getroot(), rng, nmut)]
        for label, op in docs:
            undo = _apply(op) if op else None
            try:
                for t in cmproj.record(schema, xmlschema.XMLResource(tree), stats):
                    t["ver"] = cls.XSD_VERSION
                    t["doc"] = f"{path[len(str(CORPUS)) + 1:]} [{label}]"
                    out.append(t)
            except xmlschema.XMLSchemaException:
                stats["library error"] = stats.get("library error", 0) + 1
            finally:
                if undo:
                    undo()
    return out, stats


def validate_corpus(ctx: Ctx, ver, traces, tag):
    """-> [(trace index, event index, reason)] for the rejected traces."""
    import re
    path = ctx.work / f"corpus_{tag}_{len(ctx.tlc_runs)}.json"
    path.write_text(json.dumps([{"m": t["m"], "ev": t["ev"], "valid": t["valid"]} for t in traces]))
    cfg = ("SPECIFICATION TSpec\nCONSTRAINT Mark\nPOSTCONDITION Post\nCHECK_DEADLOCK FALSE\n"
           f'CONSTANTS\n Ver = "{ver}"\n MaxLen = 0\n Syms = {{}}\n ModelSet = {{}}\n')
    r = ctx.tlc("Trace_ContentModel", cfg_text=cfg, workers=1, env={"TRACE_FILE": str(path)},
                tag=f"trace-{tag}", count=True)
    flat = re.sub(r"\s+", " ", r.out)
    m = re.search(r'<< ?"rejected", \{([^}]*)\} ?>>', flat)
    if not m:
        raise MachineryError("trace validation produced no verdict")
    rejected = [int(x) for x in m.group(1).replace(" ", "").split(",") if x]
    reasons = {}
    for t, l, why in re.findall(r'<< ?(\d+), (\d+), "([^"]+)" ?>>', flat):
        reasons.setdefault(int(t), (int(l), why))
    return [(t, *reasons.get(t, (0, "no behaviour of the specification explains the recorded children")))
            for t in rejected]


def corpus_phase(ctx: Ctx):
    """Obligation C: the content models of the repository's own test schemas, the children of its test
    documents and of single-edit variants of them, as the implementation attributed and judged them,
    against the machine of ContentModel.tla."""
    files = sorted(str(p) for p in CORPUS.rglob("*.xml"))
    nmut = 60 if ctx.tier == "quick" else 400
    results = ctx.pmap(corpus_worker, [(f, nmut, ctx.seed) for f in files], chunks=1)
    stats, uniq = {}, {}
    for trs, st in results:
        for k, v in st.items():
            stats[k] = stats.get(k, 0) + v
        for t in trs:
            uniq.setdefault((t["ver"], json.dumps([t["m"], t["ev"], t["valid"]])), t)
    total = 0
    for ver in ("1.0", "1.1"):
        batch = [t for (v, _), t in sorted(uniq.items(), key=lambda kv: kv[0]) if v == ver]
        if not batch:
            raise MachineryError("no corpus trace recorded")
        total += len(batch)
        for t, l, why in validate_corpus(ctx, ver, batch, ver):
            tr = batch[t - 1]
            ctx.report({"kind": "corpus-trace", "ver": ver, "trace": tr, "event": l},
                       f"{ver} corpus trace {tr['doc']} {tr['about']}: children "
                       f"{[e['t'] for e in tr['ev']]} of model {json.dumps(tr['m'])}: {why} (event {l})")
        # the binding is real: a trace with its verdict flipped / a child renamed must be rejected
        probe = [dict(t) for t in batch[:40]]
        for i, t in enumerate(probe):
            if i % 2 == 0 or not t["ev"]:
                t["valid"] = not t["valid"]
            else:
                t["ev"] = [dict(e) for e in t["ev"]]
                t["ev"][0]["p"] = [9, 9]
                t["valid"] = True
        rej = {t for t, _, _ in validate_corpus(ctx, ver, probe, f"selftest-{ver}")}
        want = set(range(1, len(probe) + 1))
        if not want <= rej:
            raise MachineryError(f"corrupted corpus traces accepted: {sorted(want - rej)[:5]}")
    ctx.impl_traces += total
    ctx.extra["corpus"] = {"documents": len(files), "mutations_per_document": nmut,
                           "distinct_traces": total, "invalid_verdicts": sum(1 for t in uniq.values() if not t["valid"]),
                           "recording": stats}
    some = [t for t in uniq.values() if not t["valid"]][:2] + list(uniq.values())[:2]
    for t in some:
        ctx.sample({"scope": "corpus-trace", "doc": t["doc"], "about": t["about"], "model": t["m"],
                    "children": [e["t"] for e in t["ev"]], "impl_valid": t["valid"]}, 16)


def plans(tier):
    """(scope, TLC Ver, ModelSet, syms, MaxLen, schema classes judged)"""
    ab, abc, var = ["a", "b"], ["a", "b", "c"], ["a", "b", "m", "o"]
    varf = var + ["f"]
    if tier == "quick":
        return [("depth1", "1.0", "Depth1", ab, 4, ["1.0", "1.1"]),
                ("depth2q", "1.0", "Depth2Q", ab, 4, ["1.0", "1.1"]),
                ("all", "1.0", "AllQ", abc, 4, ["1.0", "1.1"]),
                ("leafvar10", "1.0", "LeafVar", var, 3, ["1.0"]),
                ("leafvar11", "1.1", "LeafVar", var, 3, ["1.1"]),
                ("leafvarf10", "1.0", "LeafVarF", varf, 3, ["1.0"]),
                ("leafvarf11", "1.1", "LeafVarF", varf, 3, ["1.1"]),
                ("mid3", "1.0", "Mid3", ab, 4, ["1.0", "1.1"]),
                ("zero", "1.0", "Zero", abc, 3, ["1.0", "1.1"]),
                ("all11q", "1.1", "All11Q", ab, 5, ["1.1"]),
                ("nestw11", "1.1", "NestW", ["a", "b", "o"], 3, ["1.1"])]
    return [("depth1", "1.0", "Depth1", ab, 5, ["1.0", "1.1"]),
            ("depth2q", "1.0", "Depth2Q", ab, 5, ["1.0", "1.1"]),
            ("depth2", "1.0", "Depth2", ab, 4, ["1.0", "1.1"]),
            ("all", "1.0", "All11", abc, 5, ["1.0", "1.1"]),
            ("leafvar10", "1.0", "LeafVar", var, 4, ["1.0"]),
            ("leafvar11", "1.1", "LeafVar", var, 4, ["1.1"]),
            ("leafvarf10", "1.0", "LeafVarF", varf, 3, ["1.0"]),
            ("leafvarf11", "1.1", "LeafVarF", varf, 3, ["1.1"]),
            ("mid3", "1.0", "Mid3", ab, 4, ["1.0", "1.1"]),
            ("zero", "1.0", "Zero", abc, 3, ["1.0", "1.1"]),
            ("all11q", "1.1", "All11Q", ab, 5, ["1.1"]),
            ("nestw11", "1.1", "NestW", ["a", "b", "o"], 4, ["1.1"])]


def run(ctx: Ctx, collect=None, only=None):
    witnesses = load_witnesses()
    nmodels = ncases = nskipped = nrefused = 0
    per_scope = {}
    todo = [p for p in plans(ctx.tier) if not only or p[0] in only]
    spec_side = ctx.parallel([(lambda p=p: tlc_universe(ctx, p[1], p[2], p[3], p[4], p[0], workers=6))
                              for p in todo], width=3)
    for (scope, ver, ms, syms, maxlen, vers), (cls, words) in zip(todo, spec_side):
        jobs = []
        for i, (k, recs) in enumerate(sorted(words.items())):
            m = json.loads(k)
            jobs.append((m, recs, cls[k], vers,
                         ("mixed" if i % 2 else "inline") if scope == "zero" else
                         "groupref" if i % 3 == 2 else "inline",
                         ctx.tier == "thorough" or i % 2 == 0))
        results = ctx.pmap(judge_model, jobs)
        st = {"models": len(jobs), "cases": 0, "outside_domain": 0, "refused": 0,
              "strongly_deterministic": sum(1 for j in jobs if j[2]["strong"])}
        for (m, recs, info, *_), res in zip(jobs, results):
            if res["skipped"]:
                st["outside_domain"] += 1
                continue
            st["refused"] += len(res["refused"])
            st["cases"] += res["cases"]
            report(ctx, scope, m, info, res["bad"], witnesses, collect)
        per_scope[scope] = st
        nmodels += st["models"]
        ncases += st["cases"]
        for m, recs, info, *_ in jobs[:: max(1, len(jobs) // 2)][:2]:
            ctx.sample({"scope": scope, "model": cm.model_str(m),
                        "words": ["".join(r["w"]) for r in recs[:6]],
                        "spec_valid": [r["acc"] for r in recs[:6]], "class": info}, 12)
    if not only or "opencontent" in only:
        st = oc_phase(ctx, witnesses, collect)
        per_scope["opencontent"] = st
        ncases += st["cases"]
    if not only or "corpus" in only:
        corpus_phase(ctx)
    ctx.impl_replays = ncases
    ctx.evaluations = ncases
    ctx.nontrivial = ncases
    ctx.exhaustive = True
    ctx.extra.update({"models": nmodels, "per_scope": per_scope})
    ctx.rule = ("(content model, child sequence, schema class, driver) as enumerated by TLC from "
                "spec/ContentModel.tla; a case is one word judged on one schema class by one driver; "
                "models the spec classifies as UPA-violating and models the library refuses to "
                "build are outside the domain and counted separately")
    ctx.assumptions += [
        "children are simple-typed leaves, so only the content model decides validity",
        "XSD 1.1 element-vs-wildcard competition: a word is judged only if the validation-path "
        "reading and the plain language reading agree on it",
        "known findings are matched by complete witness lists (findings/C01_witnesses.json.gz) "
        "inside these seed-independent scopes: any other failing case is a violation"]


def replay(ctx: Ctx, case):
    m, w = case["model"], case["word"]
    cls, words = tlc_universe(ctx, case["ver"], "MCModels", sorted(set(w) | {"a", "b"}),
                              len(w), "replay", [m])
    k = cm.mkey(m)
    recs = [r for r in words[k] if r["w"] == w]
    res = judge_model((m, recs, cls[k], [case["ver"]], "inline", True))
    report(ctx, case.get("scope", "replay"), m, cls[k], res["bad"], load_witnesses(), None)
