"""C09 - a schema means the same however its declarations are ordered, split or stored.

Spec: spec/Build.tla - the staged build (staging order, on-demand recursive builds, circularity
markers).  A: for every one of the 5040 staging orders of the abstract schema TLC checks that each
declaration is begun at most once, is a marker exactly while it is being built, dependencies are in
the store first, every order ends with everything built (confluence; a circularity is reported iff
the dependency graph is cyclic) and the build terminates (liveness under weak fairness).
B: the same abstract schema is written out under the orders TLC enumerates, split over 1-3 included
documents with different location spellings, with two imported namespaces whose imports are written in
either order, with or without locations (or handed over as a list of documents in either order); the real global set and the verdicts of probe
instances must be the spec's; copy(), pickle and a second build must not change them; the corpus
schemas of tests/test_cases are permuted at text level and compared with the original arrangement.
C: build.begin/end/circular hook events of every build are validated against Trace_Build.tla.
"""
from __future__ import annotations

from harness.core import stable
import copy
import json
import os
import pickle
import random
import shutil
import tempfile
import urllib.parse
import warnings

from harness import cm, traces
from harness.core import Ctx, MachineryError, REPO

TNS = "urn:T"
DECL = {
    "tB": ('<xs:complexType name="tB" final="restriction"><xs:sequence><xs:element name="x" type="xs:string"/>'
           '</xs:sequence></xs:complexType>'),
    "tD": ('<xs:complexType name="tD"@DA@><xs:complexContent><xs:extension base="t:tB"><xs:sequence>'
           '<xs:element name="y" type="xs:int"/></xs:sequence><xs:attributeGroup ref="t:ag"/>'
           '</xs:extension></xs:complexContent></xs:complexType>'),
    "ag": ('<xs:attributeGroup name="ag"><xs:attribute name="p" type="xs:int"/><xs:attribute ref="v:a"/>'
           '</xs:attributeGroup>'),
    "dflt": '<xs:attributeGroup name="dflt"><xs:attribute name="d" type="xs:int"/></xs:attributeGroup>',
    "g": '<xs:group name="g"><xs:sequence><xs:element ref="t:e"/></xs:sequence></xs:group>',
    "e": '<xs:element name="e" type="t:tD" block="restriction"/>',
    "m": '<xs:element name="m" type="t:tD" substitutionGroup="t:e"/>',
    "r": ('<xs:element name="r"><xs:complexType><xs:sequence><xs:group ref="t:g"/>'
          '<xs:element ref="t:m" minOccurs="0" maxOccurs="unbounded"/></xs:sequence></xs:complexType>'
          '<xs:key name="K"><xs:selector xpath="t:e"/><xs:field xpath="@p"/></xs:key>'
          '<xs:keyref name="R" refer="t:K"><xs:selector xpath="t:m"/><xs:field xpath="@p"/></xs:keyref>'
          '</xs:element>'),
}
# XSD 1.1 only, placed like dflt anywhere among the documents (not part of the abstract schema of Build.tla):
# two types whose content is a reference to the SAME named group, in which an element declaration competes with a
# wildcard (the element wins, whichever type is built first), and a wildcard that excludes every DEFINED global
# element (wherever that element is declared)
EXTRA11 = {
    "gw": ('<xs:group name="gw"><xs:choice><xs:any namespace="##targetNamespace" processContents="skip"/>'
           '<xs:element name="n" type="xs:int"/></xs:choice></xs:group>'),
    "tW1": '<xs:complexType name="tW1"@DA@><xs:group ref="t:gw" minOccurs="0" maxOccurs="unbounded"/></xs:complexType>',
    "tW2": '<xs:complexType name="tW2"@DA@><xs:group ref="t:gw" minOccurs="0" maxOccurs="unbounded"/></xs:complexType>',
    "w1": '<xs:element name="w1" type="t:tW1"/>',
    "w2": '<xs:element name="w2" type="t:tW2"/>',
    "q": ('<xs:element name="q"><xs:complexType@DA@><xs:sequence><xs:any namespace="##targetNamespace" '
          'notQName="##defined" processContents="skip"/></xs:sequence></xs:complexType></xs:element>'),
}
EXTRA_KIND = {"gw": "group", "tW1": "type", "tW2": "type", "w1": "element", "w2": "element", "q": "element"}
PROBES11 = [
    ('<t:w1 xmlns:t="urn:T"><t:n>5</t:n></t:w1>', True), ('<t:w1 xmlns:t="urn:T"><t:n>abc</t:n></t:w1>', False),
    ('<t:w2 xmlns:t="urn:T"><t:n>5</t:n></t:w2>', True), ('<t:w2 xmlns:t="urn:T"><t:n>abc</t:n></t:w2>', False),
    ('<t:w2 xmlns:t="urn:T"><t:other>abc</t:other></t:w2>', True),
    ('<t:q xmlns:t="urn:T"><t:zz/></t:q>', True), ('<t:q xmlns:t="urn:T"><t:m/></t:q>', False),
    ('<t:q xmlns:t="urn:T"><t:w1/></t:q>', False), ('<t:q xmlns:t="urn:T"><t:r/></t:q>', False),
    ('<t:w1 xmlns:t="urn:T"><t:other/><t:n>5</t:n><t:n>abc</t:n></t:w1>', False),
    ('<t:w2 xmlns:t="urn:T"><t:other/><t:n>5</t:n><t:n>7</t:n></t:w2>', True),
]
KIND = {"tB": "type", "tD": "type", "ag": "attribute_group", "dflt": "attribute_group", "g": "group", "e": "element",
        "m": "element", "r": "element"}
PROBES = [
    ('<t:r xmlns:t="urn:T"><t:e p="1"><t:x>a</t:x><t:y>1</t:y></t:e></t:r>', True),
    ('<t:r xmlns:t="urn:T"><t:m><t:x>a</t:x><t:y>1</t:y></t:m><t:m><t:x>a</t:x><t:y>2</t:y></t:m></t:r>', True),
    ('<t:r xmlns:t="urn:T"><t:e p="1"><t:x>a</t:x><t:y>1</t:y></t:e><t:m p="01"><t:x>a</t:x><t:y>1</t:y></t:m></t:r>', True),
    ('<t:r xmlns:t="urn:T"><t:e p="1"><t:x>a</t:x><t:y>1</t:y></t:e><t:m p="2"><t:x>a</t:x><t:y>1</t:y></t:m></t:r>', False),
    ('<t:r xmlns:t="urn:T"><t:e><t:x>a</t:x></t:e></t:r>', False),
    ('<t:r xmlns:t="urn:T"><t:e p="x"><t:x>a</t:x><t:y>1</t:y></t:e></t:r>', False),
    ('<t:e xmlns:t="urn:T"><t:x>a</t:x><t:y>z</t:y></t:e>', False),
    ('<t:e xmlns:t="urn:T" xmlns:v="urn:V" v:a="5"><t:x>a</t:x><t:y>1</t:y></t:e>', True),
    ('<t:e xmlns:t="urn:T" xmlns:v="urn:V" v:a="500"><t:x>a</t:x><t:y>1</t:y></t:e>', False),
]
HEAD = (f'<xs:schema xmlns:xs="{cm.XS}" targetNamespace="{TNS}" xmlns:t="{TNS}" xmlns:u="urn:U" xmlns:v="urn:V" '
        f'elementFormDefault="qualified">')
# XSD 1.1: every document names t:dflt as its default attribute group (wherever that group is declared)
HEAD11 = HEAD.replace('elementFormDefault=', 'defaultAttributes="t:dflt" elementFormDefault=')
PROBES_BY_VERSION = [       # (document, valid in 1.0, valid in 1.1): the default attribute d exists in 1.1 only
    ('<t:e xmlns:t="urn:T" d="5"><t:x>a</t:x><t:y>1</t:y></t:e>', False, True),
    ('<t:e xmlns:t="urn:T" d="x"><t:x>a</t:x><t:y>1</t:y></t:e>', False, False),
]
# two further namespaces: V's attribute a is typed by U's simple type (V imports U, T imports both)
U_XSD = (f'<xs:schema xmlns:xs="{cm.XS}" targetNamespace="urn:U"><xs:simpleType name="uT"><xs:restriction '
         'base="xs:int"><xs:maxInclusive value="100"/></xs:restriction></xs:simpleType></xs:schema>')
V_XSD = (f'<xs:schema xmlns:xs="{cm.XS}" targetNamespace="urn:V" xmlns:u="urn:U">%s'
         '<xs:attribute name="a" type="u:uT"/></xs:schema>')


def globals_of(schema, ns=None):
    out = []
    for kind, mp in (("type", schema.maps.types), ("element", schema.maps.elements),
                     ("group", schema.maps.groups), ("attribute_group", schema.maps.attribute_groups),
                     ("attribute", schema.maps.attributes), ("notation", schema.maps.notations)):
        for q in mp:
            if ns is None and not q.startswith("{http://www.w3.org/"):
                out.append((kind, q))
            elif ns is not None and q.startswith("{%s}" % ns):
                out.append((kind, q))
    return sorted(out)


def fingerprint(schema, ns=None):
    """Structural fingerprint of the global components: what copy / pickle / rebuild must preserve."""
    out = []
    pre = ("{%s}" % ns) if ns is not None else None
    for q, e in sorted(schema.maps.elements.items()):
        if (pre and q.startswith(pre)) or (pre is None and not q.startswith("{http://www.w3.org/")):
            out.append(("element", q, getattr(e.type, "name", None), e.block, e.final, e.abstract, e.nillable,
                        e.fixed, e.default, sorted(i.name for i in e.identities),
                        sorted(x.name for x in e.iter_substitutes())))
    for q, t in sorted(schema.maps.types.items()):
        if (pre and q.startswith(pre)) or (pre is None and not q.startswith("{http://www.w3.org/")):
            out.append(("type", q, getattr(t.base_type, "name", None), getattr(t, "block", None), t.final,
                        getattr(t, "abstract", None), getattr(t, "derivation", None),
                        sorted(map(str, getattr(t, "attributes", {}) or {}))))
    for q, members in sorted(schema.maps.substitution_groups.items()):
        out.append(("substitution_group", q, sorted(m.name for m in members)))
    out.append(("identities", sorted(str(k) for k in schema.maps.identities)))
    return out


def results(schema, xml):
    errs = []
    try:
        for e in schema.iter_errors(xml):
            errs.append((e.path, stable(e.reason)[:160]))
    except Exception as e:      # noqa: BLE001
        errs.append(("raised", type(e).__name__))
    try:
        data = schema.decode(xml, validation="lax")[0]
    except Exception as e:      # noqa: BLE001
        data = f"raised {type(e).__name__}"
    return {"errors": errs, "data": repr(data)}


def spelling(kind, directory, fname):
    if kind == 0:
        return fname
    if kind == 1:
        return "./" + fname
    if kind == 2:
        return "sub/../" + fname
    if kind == 3:
        return os.path.join(directory, fname)
    if kind == 4:
        return "file://" + urllib.parse.quote(os.path.join(directory, fname))
    return "./sub/.././" + fname


def decl(n, ver):
    """tD inherits the default attributes from tB: in XSD 1.1 it must not get them a second time."""
    return (DECL.get(n) or EXTRA11[n]).replace("@DA@", ' defaultAttributesApply="false"' if ver == "1.1" else "")


def arrangement_case(job):
    order, idx, ver = job
    from xmlschema import _verif_trace as vt
    out, trs = [], []
    head_ = HEAD11 if ver == "1.1" else HEAD
    order = list(order)
    order.insert(idx % (len(order) + 1), "dflt")      # the default attribute group, anywhere among the others
    ndocs = 1 + idx % 3
    assign = {n: (idx // (3 ** k)) % ndocs for k, n in enumerate(sorted(DECL))}
    extras = sorted(EXTRA11) if ver == "1.1" else []
    for k, n in enumerate(extras):
        order.insert((idx * (k + 3) + k) % (len(order) + 1), n)
        assign[n] = (idx // (2 ** k) + k) % ndocs
    with tempfile.TemporaryDirectory(prefix="verif c09 ") as d:     # a space: percent-encoding matters
        os.mkdir(os.path.join(d, "sub"))
        incs = []
        for j in range(1, ndocs):
            body = "".join(decl(n, ver) for n in order if assign[n] == j)
            with open(os.path.join(d, f"part{j}.xsd"), "w") as f:      # every document imports what it refers to
                f.write(head_ + ('<xs:import namespace="urn:V"/>' if "v:a" in body else "") + body + "</xs:schema>")
            incs.append(f'<xs:include schemaLocation="{spelling((idx + j) % 6, d, f"part{j}.xsd")}"/>')
        if idx % 2:
            incs.reverse()
        if ndocs > 1 and idx % 5 == 0 and 'schemaLocation="/' not in incs[0] and "file:" not in incs[0]:
            incs.append(incs[0].replace('schemaLocation="', 'schemaLocation="./'))      # same file twice
        # the imported namespaces: order of the imports, with or without locations, or no location at all and
        # the documents handed over as a list (in either order)
        listed = (idx // 2) % 3 == 0
        with open(os.path.join(d, "u.xsd"), "w") as f:
            f.write(U_XSD)
        with open(os.path.join(d, "v.xsd"), "w") as f:
            f.write(V_XSD % ('<xs:import namespace="urn:U"/>' if (listed or idx % 4 < 2) else
                             f'<xs:import namespace="urn:U" schemaLocation="{spelling(idx % 6, d, "u.xsd")}"/>'))
        imps = [f'<xs:import namespace="urn:{n.upper()}"' +
                ("" if listed else f' schemaLocation="{spelling((idx + k) % 6, d, n + ".xsd")}"') + "/>"
                for k, n in enumerate(("u", "v"))]
        if (idx // 3) % 2:
            imps.reverse()
        head = imps + incs if idx % 7 < 4 else incs + imps
        main = os.path.join(d, "main.xsd")
        with open(main, "w") as f:
            f.write(head_ + "".join(head) + "".join(decl(n, ver) for n in order if assign[n] == 0) + "</xs:schema>")
        src = main
        if listed:
            others = [os.path.join(d, "u.xsd"), os.path.join(d, "v.xsd")]
            if idx % 4 >= 2:
                others.reverse()
            src = [main] + others
        main = src
        cls = cm.schema_class(ver)
        ev = vt.start()
        try:
            with warnings.catch_warnings():
                warnings.simplefilter("ignore")
                s = cls(main)
        except Exception as e:      # noqa: BLE001
            vt.stop()
            return [(f"arrangement refused: {type(e).__name__}: {str(e)[:200]}", None)], []
        finally:
            vt.stop()
        trs.append(project_build_trace(ev))
        want = sorted([(KIND[n], "{%s}%s" % (TNS, n)) for n in DECL] + [(EXTRA_KIND[n], "{%s}%s" % (TNS, n)) for n in extras])
        variants = [("built", s)]
        try:
            variants.append(("copy", copy.copy(s)))
            variants.append(("pickle", pickle.loads(pickle.dumps(s))))
            s2 = cls(main)
            s2.build()
            s2.build()
            variants.append(("built twice", s2))
            s3 = cls(main)
            s3.maps.clear()
            s3.build()
            variants.append(("cleared and rebuilt", s3))
            if not listed:
                with open(main) as fh:
                    variants.append(("from text with base_url", cls(fh.read(), base_url=d)))
        except Exception as e:      # noqa: BLE001
            out.append((f"copy/pickle/rebuild raised {type(e).__name__}: {str(e)[:200]}", None))
        fp0 = fingerprint(s, TNS)
        for label, sv in variants:
            got = globals_of(sv, TNS)
            if got != want:
                out.append((f"{label}: global components {got}, spec expects {want}", label))
                continue
            fp = fingerprint(sv, TNS)
            if fp != fp0:
                diff = [x for x in fp if x not in fp0][:3]
                out.append((f"{label}: components differ from the first build: {diff}", label))
                continue
            for xml, ok in PROBES + [(x, b if ver == "1.1" else a) for x, a, b in PROBES_BY_VERSION] + \
                    (PROBES11 if ver == "1.1" else []):
                try:
                    v = sv.is_valid(xml)
                except Exception as e:      # noqa: BLE001
                    out.append((f"{label}: probe raised {type(e).__name__}: {e}"[:200], label))
                    break
                if v != ok:
                    out.append((f"{label}: probe {xml} is_valid={v}, spec says {ok}", label))
                    break
    return out, trs


def project_build_trace(events):
    evs = []
    for e in events:
        if not e["ev"].startswith("build."):
            continue
        evs.append({"e": e["ev"][6:], "k": f'{e["maps"]}:{e["map"]}:{e["qname"]}', "staged": bool(e.get("staged"))})
    return {"ev": evs}


# ----------------------------------------------------------------------------- corpus (metamorphic)
def corpus_items(root):
    """(schema path, [instance paths]) pairs from tests/test_cases/testfiles."""
    import xmlschema
    schemas, docs = [], []
    for line in open(os.path.join(root, "testfiles"), encoding="utf-8"):
        line = line.split("#")[0].strip()
        if not line:
            continue
        parts = line.split()
        path = os.path.join(root, parts[0])
        opts = " ".join(parts[1:])
        if path.endswith(".xsd") and "--errors" not in opts and "--version=1.1" not in opts \
                and "--defuse" not in opts:
            schemas.append(path)
        elif path.endswith(".xml") and "--version" not in opts and "--lax" not in opts and "--skip" not in opts:
            docs.append(path)
    by = {s: [] for s in schemas}
    for dpath in docs:
        try:
            with warnings.catch_warnings():
                warnings.simplefilter("ignore")
                sp = xmlschema.fetch_schema(dpath)
        except Exception:       # noqa: BLE001
            continue
        sp = urllib.parse.unquote(sp[7:] if sp.startswith("file://") else sp)
        if sp in by:
            by[sp].append(dpath)
    return sorted(by.items())


def permute_schema_text(path, rng):
    """Permute the global declarations of a schema document (lxml keeps prefixes and comments)."""
    import lxml.etree as LE
    tree = LE.parse(path)
    root = tree.getroot()
    fixed = {f"{{{cm.XS}}}{n}" for n in ("include", "import", "redefine", "override", "annotation",
                                          "defaultOpenContent")}
    kids = [c for c in root if isinstance(c.tag, str)]
    head = [c for c in kids if c.tag in fixed]
    decls = [c for c in kids if c.tag not in fixed]
    if len(decls) < 2:
        return False
    last_head = max((list(root).index(c) for c in head), default=-1)
    if any(list(root).index(c) < last_head for c in decls):
        return False        # declarations interleaved with includes: leave alone
    rng.shuffle(decls)
    for c in decls:
        root.remove(c)
    for c in decls:
        root.append(c)
    tree.write(path, xml_declaration=True, encoding=tree.docinfo.encoding or "UTF-8")
    return True


def corpus_case(job):
    spath, dpaths, seed, tmp_root = job
    import xmlschema
    out = []
    rng = random.Random(seed)

    def load(p):
        with warnings.catch_warnings():
            warnings.simplefilter("ignore")
            return xmlschema.XMLSchema(p)
    try:
        base = load(spath)
    except Exception:       # noqa: BLE001
        return out, 0
    g0 = globals_of(base)
    f0 = fingerprint(base)
    r0 = {os.path.basename(dp): results(base, dp) for dp in dpaths}
    n = 0
    def rebuilt():
        sv = load(spath)
        sv.maps.clear()
        sv.build()
        return sv
    variants = [("copy", lambda: copy.copy(base)), ("pickle", lambda: pickle.loads(pickle.dumps(base))),
                ("cleared and rebuilt", rebuilt)]
    if permute_schema_text(spath, rng):
        variants.append(("declarations permuted", lambda: load(spath)))
    for label, mk in variants:
        n += 1
        try:
            sv = mk()
        except Exception as e:      # noqa: BLE001
            out.append((spath, label, f"raised {type(e).__name__}: {str(e)[:200]}"))
            continue
        g = globals_of(sv)
        if g != g0:
            diff = sorted(set(g) ^ set(g0))[:6]
            out.append((spath, label, f"global components differ: {diff}"))
            continue
        if label != "copy":
            f = fingerprint(sv)
            if f != f0:
                out.append((spath, label, f"components differ: {[x for x in f if x not in f0][:2]}"[:400]))
                continue
        for dp in dpaths:
            r = results(sv, dp)
            if r != r0[os.path.basename(dp)]:
                out.append((spath, label, f"results for {os.path.basename(dp)} differ: {r['errors'][:2]} vs "
                            f"{r0[os.path.basename(dp)]['errors'][:2]}"))
    return out, n


def run(ctx: Ctx):
    thorough = ctx.tier == "thorough"
    a = ctx.tlc("Build", "Build.cfg", constants={"Cyclic": "FALSE"}, tag="A-acyclic", workers=8)
    ctx.tlc("Build", "Build.cfg", constants={"Cyclic": "TRUE"}, tag="A-cyclic", workers=8)
    orders = [r["order"] for r in a.json_records()]
    if len(orders) != 5040:
        raise MachineryError(f"expected 5040 staging orders, TLC emitted {len(orders)}")
    stride = 7 if thorough else 61       # coprime to 2, 3, 5, 7: the index drives the split / spelling choices
    jobs = [(o, i, ver) for i, o in enumerate(orders) if i % stride == 0 for ver in ("1.0", "1.1")]
    all_traces, owners = [], []
    for (o, i, ver), (bad, trs) in zip(jobs, ctx.pmap(arrangement_case, jobs)):
        for t in trs:
            all_traces.append(t)
            owners.append((o, i, ver))
        for what, label in bad:
            finding = "F-C09-copy" if (label == "copy" and "XMLSchemaNotBuiltError" in what) else None
            ctx.report({"driver": "arrangement", "order": o, "index": i, "ver": ver, "observed": what},
                       f"{ver} order {o} split #{i}: {what[:300]}", finding=finding)
    ctx.impl_replays = len(jobs) * 5
    # corpus, metamorphic against the original arrangement (on a scratch copy)
    scratch = tempfile.mkdtemp(prefix="verif_c09_corpus_")
    try:
        root = os.path.join(scratch, "test_cases")
        shutil.copytree(REPO / "tests" / "test_cases", root)
        items = corpus_items(root)
        if not thorough:
            items = items[:: max(1, len(items) // 25)]
        cjobs = [(sp, dps, ctx.seed * 1000 + k, root) for k, (sp, dps) in enumerate(items)]
        ncorp = 0
        for bad, n in ctx.pmap(corpus_case, cjobs):
            ncorp += n
            for spath, label, what in bad:
                if label == "copy" and "XMLSchemaNotBuiltError" in what:
                    ctx.known_hits["F-C09-copy"] = ctx.known_hits.get("F-C09-copy", 0) + 1
                    continue
                ctx.report({"driver": "corpus", "schema": os.path.relpath(spath, root), "variant": label,
                            "observed": what, "seed": ctx.seed},
                           f"corpus {os.path.relpath(spath, root)} [{label}]: {what}")
        ctx.impl_replays += ncorp
        ctx.extra["corpus_schemas"] = len(cjobs)
    finally:
        shutil.rmtree(scratch, ignore_errors=True)
    # C: build traces
    cfg = "SPECIFICATION Spec\nCONSTRAINT Mark\nPOSTCONDITION Post\nCHECK_DEADLOCK FALSE\n"
    rejected, _, flat = traces.validate(ctx, "Trace_Build", all_traces, cfg)
    import re
    reasons = {int(t): (int(l), w) for t, l, w in re.findall(r'<< ?(\d+), (\d+), "([^"]+)" ?>>', flat)}
    for t in rejected:
        o, i, ver = owners[t - 1]
        l, why = reasons.get(t, (0, "no behaviour of the specification explains the recorded events"))
        ctx.report({"driver": "trace", "order": o, "index": i, "ver": ver, "trace": all_traces[t - 1],
                    "event": l, "observed": why}, f"build trace rejected at event {l}: {why}")
    ctx.impl_traces = len(all_traces)
    # binding self-test: drop one end event -> rejected
    mut = json.loads(json.dumps(all_traces[:20]))
    for t in mut:
        ends = [k for k, e in enumerate(t["ev"]) if e["e"] == "end"]
        if ends:
            del t["ev"][ends[0]]
            break
    rej, _, _ = traces.validate(ctx, "Trace_Build", mut, cfg, tag="selftest")
    if not rej:
        raise MachineryError("binding self-test: a build trace with a dropped end event was accepted")
    ctx.sample({"order": jobs[1][0], "split_index": jobs[1][1],
                "trace_events": all_traces[1]["ev"][:6] if len(all_traces) > 1 else None})
    ctx.evaluations = ctx.impl_replays
    ctx.nontrivial = len(jobs) + ctx.extra.get("corpus_schemas", 0)
    ctx.rule = ("staging orders of the 7-declaration abstract schema (every 63rd / 7th of the 5040 TLC "
                "enumerates) x split over 1-3 included documents x 6 location spellings x include order x "
                "{built, copy, pickle, built twice, from text with base_url} x 5 probe instances x both classes; "
                "corpus schemas: declarations permuted at text level (seeded), copy, pickle, compared with "
                "the original arrangement on the corpus instance files")
    ctx.assumptions += ["the corpus comparison is metamorphic (original arrangement as reference); the "
                        "spec fixes the expected globals only for the abstract schema",
                        "redefine / override arrangements are not generated"]


def replay(ctx: Ctx, case):
    if case.get("driver") == "arrangement":
        bad, _ = arrangement_case((case["order"], case["index"], case["ver"]))
        for what, label in bad:
            finding = "F-C09-copy" if (label == "copy" and "XMLSchemaNotBuiltError" in what) else None
            ctx.report(dict(case, observed=what), what[:300], finding=finding)
    elif case.get("driver") == "trace":
        cfg = "SPECIFICATION Spec\nCONSTRAINT Mark\nPOSTCONDITION Post\nCHECK_DEADLOCK FALSE\n"
        rej, _, _ = traces.validate(ctx, "Trace_Build", [case["trace"]], cfg)
        if rej:
            ctx.report(case, "build trace rejected")
    else:
        ctx.report(case, case["observed"])
    ctx.states = max(ctx.states, 1)
    ctx.transitions = max(ctx.transitions, 1)
