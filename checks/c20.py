"""C20 - schema paths match instance paths; partial decoding equals the full result.

Spec: spec/Validator.tla gives the documents and, for every node, the declaration that governs it
(`decl`: item/qty and sub/qty share a local name but not a declaration).  B: for every element of
every document: (a) the declaration reported by the public validation_hook during validation is the
one the spec names; (b) schema.find(path) returns that declaration for four spellings of the path
(positional / not, prefixed / default namespace); (c) decoding and validating only the part selected
by the node's path gives the projection of the whole-document result (data and errors); (d)
max_depth=k gives the whole-document data cut below depth k and the same errors above the cut.
"""
from __future__ import annotations

from harness.core import stable
import json
import xml.etree.ElementTree as ET

from harness import cm, vdoc
from harness.core import Ctx

_s = {}
NS = {"t": vdoc.T, "x": vdoc.X}


def schema(ver):
    if ver not in _s:
        s = cm.schema_class(ver)(vdoc.XSD)
        lib = s.elements["lib"]
        item = lib.type.content[0]
        c = item.type.content
        _s[ver] = (s, {"lib": lib, "item": item, "title": c[0], "item/qty": c[1], "note": c[2],
                       "sub": c[3], "sub/qty": c[3].type.content[0], "memo": c[4]})
    return _s[ver]


def node_steps(nodes):
    """For every node: list of (name, position among same-named siblings) from the root."""
    by_path = {tuple(n["path"]): n for n in nodes}
    out = {}
    for n in nodes:
        p = tuple(n["path"])
        steps = []
        for d in range(len(p) + 1):
            q = p[:d]
            name = by_path[q]["name"]
            if d == 0:
                steps.append((name, 1))
            else:
                sibs = [k for k in range(1, q[-1] + 1) if by_path.get(q[:-1] + (k,), {}).get("name") == name]
                steps.append((name, len(sibs)))
        out[p] = steps
    return out


def spellings(steps):
    pos = "/" + "/".join(f"t:{n}[{i}]" for n, i in steps)
    plain = "/" + "/".join(f"t:{n}" for n, i in steps)
    dflt = "/" + "/".join(n for n, i in steps)
    rel = "/".join(f"t:{n}" for n, i in steps)
    return [(pos, NS), (plain, NS), (dflt, {"": vdoc.T}), (rel, NS)]


def project(data, steps):
    """Navigate whole-document data (default converter) along steps below the root."""
    cur = data
    for name, i in steps[1:]:
        if not isinstance(cur, dict) or f"t:{name}" not in cur:
            return KeyError
        v = cur[f"t:{name}"]
        if isinstance(v, list):
            if i > len(v):
                return KeyError
            cur = v[i - 1]
        else:
            if i != 1:
                return KeyError
            cur = v
    return cur


def cut(data, k, level=1):
    if not isinstance(data, dict):
        return data
    out = {}
    for key, v in data.items():
        if key.startswith("@") or key == "$":
            out[key] = v
        elif level < k:
            out[key] = [cut(x, k, level + 1) for x in v] if isinstance(v, list) else cut(v, k, level + 1)
    return out or None


def npath(path):
    """Error paths carry a position only among same-named siblings: [1] is dropped for comparison."""
    return None if path is None else path.replace("[1]", "")


def ekey(e, ipath):
    """An error is identified by the node it is about (index path in the parsed tree) and its reason."""
    return (ipath.get(id(e.elem)) if e.elem is not None else None, stable(e.reason)[:160])


def judge(job):
    recs, ver = job
    out = []
    s, decls = schema(ver)
    n = 0
    for rec in recs:
        nodes = rec["nodes"]
        xml = vdoc.render(nodes)
        root = ET.fromstring(xml)
        ipath = vdoc.index_paths(root)
        steps = node_steps(nodes)
        # (a) governing declaration, as reported by the public hook
        seen = []

        def hook(elem, xsd_element):
            seen.append((elem.tag, xsd_element))
            return False
        try:
            full_errors = list(s.iter_errors(root, validation_hook=hook, namespaces=NS))
            full = s.decode(root, validation="lax", namespaces=NS)[0]
        except Exception as e:      # noqa: BLE001
            out.append((rec, ver, xml, f"raised {type(e).__name__}: {e}"[:200]))
            continue
        declared = [nd for nd in nodes if nd["decl"] not in ("none", "wild")]     # "wild": admitted by a wildcard
        # the hook is called in document order for every element that has a declaration
        reported = [x for tag, x in seen if x.parent is not None or x.name in s.elements]
        exp = [decls[nd["decl"]] for nd in declared]
        got = [x for tag, x in seen if x in decls.values()]
        ok_hook = len(got) == len(exp) and all(a is b or (a.ref is b) or (b.ref is a) for a, b in zip(got, exp))
        n += 1
        if rec["valid"] and not ok_hook:
            out.append((rec, ver, xml, f"validation attributed elements to {[g.name for g in got]} "
                        f"(ids differ), spec says {[nd['decl'] for nd in declared]}"))
            continue
        for nd in declared:
            p = tuple(nd["path"])
            st = steps[p]
            want = decls[nd["decl"]]
            # (b) find
            for path, ns in spellings(st):
                n += 1
                try:
                    found = s.find(path, namespaces=ns)
                except Exception as e:      # noqa: BLE001
                    out.append((rec, ver, xml, f"find({path!r}) raised {type(e).__name__}: {e}"[:200]))
                    break
                if found is not want and getattr(found, "ref", None) is not want:
                    out.append((rec, ver, xml, f"find({path!r}) -> {found!r}, governing declaration is "
                                f"{nd['decl']} ({want!r})"))
                    break
            # (c) partial decoding / validation
            path = spellings(st)[0][0]
            n += 1
            try:
                part = s.decode(root, path=path, validation="lax", namespaces=NS)[0]
                perr = sorted(ekey(e, ipath) for e in s.iter_errors(root, path=path, namespaces=NS))
            except Exception as e:      # noqa: BLE001
                out.append((rec, ver, xml, f"partial decode at {path} raised {type(e).__name__}: {e}"[:200]))
                continue
            want_data = project(full, st)
            if want_data is not KeyError:
                if p == ():
                    want_data, part = ({k: v for k, v in (want_data or {}).items() if not k.startswith("@xmlns")},
                                       {k: v for k, v in (part or {}).items() if not k.startswith("@xmlns")})
                if part != want_data:
                    out.append((rec, ver, xml, f"decode(path={path!r}) = {part!r}, projection of the whole "
                                f"result = {want_data!r}"))
                    continue
            werr = sorted(k for k in (ekey(e, ipath) for e in full_errors)
                          if k[0] is not None and k[0][:len(p)] == p)
            if perr != werr:
                out.append((rec, ver, xml, f"iter_errors(path={path!r}) = {perr}, whole-document errors in that "
                            f"subtree = {werr}"))
        # (c'') the same from the document TEXT (the resource knows the namespace declarations itself: no
        # namespaces argument; QName values use prefixes declared on ancestors of the selected element)
        try:
            tfull = sorted((npath(e.path), stable(e.reason)[:160]) for e in s.iter_errors(xml))
        except Exception as e:      # noqa: BLE001
            out.append((rec, ver, xml, f"iter_errors on the text raised {type(e).__name__}: {e}"[:200]))
            tfull = None
        for nd in declared if tfull is not None else ():
            p = tuple(nd["path"])
            path = spellings(steps[p])[0][0]
            n += 1
            try:
                tpart = sorted((npath(e.path), stable(e.reason)[:160]) for e in s.iter_errors(xml, path=path))
                tvalid = s.is_valid(xml, path=path)
            except Exception as e:      # noqa: BLE001
                out.append((rec, ver, xml, f"iter_errors(text, path={path!r}) raised {type(e).__name__}: {e}"[:200]))
                continue
            np_ = npath(path)
            twant = [k for k in tfull if k[0] is not None and (k[0] == np_ or k[0].startswith(np_ + "/"))]
            if tpart != twant or tvalid != (not twant):
                out.append((rec, ver, xml, f"text source: iter_errors(path={path!r}) = {tpart} (is_valid={tvalid}), "
                            f"whole-document errors in that subtree = {twant}"))
        # (c') wildcard-terminated paths: all children of an element at once
        for nd in declared:
            p = tuple(nd["path"])
            if not any(tuple(x["path"][:-1]) == p for x in nodes if x["path"]):
                continue
            path = spellings(steps[p])[0][0] + "/*"
            n += 1
            try:
                perr = sorted(ekey(e, ipath) for e in s.iter_errors(root, path=path, namespaces=NS))
            except Exception as e:      # noqa: BLE001
                out.append((rec, ver, xml, f"iter_errors(path={path!r}) raised {type(e).__name__}: {e}"[:200]))
                continue
            werr = sorted(k for k in (ekey(e, ipath) for e in full_errors)
                          if k[0] is not None and len(k[0]) > len(p) and k[0][:len(p)] == p)
            if perr != werr:
                # F-C20-b: a selected element that no declaration matches (in the whole document it is an error
                # of the strict wildcard that admits it) is skipped silently
                undeclared = {tuple(x["path"]) for x in nodes if x["decl"] == "none" and tuple(x["path"][:-1]) == p}
                skipped = [k for k in werr if k[0] in undeclared and "not found" in k[1]]
                # ... likewise the undeclared wrapper that a LAX wildcard admits (x:wrap): nothing inside it is assessed
                wraps = {tuple(x["path"]) for x in nodes if x["name"] == "wrap" and tuple(x["path"][:-1]) == p}
                skipped += [k for k in werr if any(k[0][:len(w)] == w and len(k[0]) > len(w) for w in wraps)]
                fid = "F-C20-b" if skipped and perr == sorted(k for k in werr if k not in skipped) else None
                out.append((rec, ver, xml, f"iter_errors(path={path!r}) = {perr}, whole-document errors below "
                            f"that element = {werr}", fid))
        # (d) max_depth
        for k in (1, 2, 3, 4):
            n += 1
            try:
                dk = s.decode(root, max_depth=k, validation="lax", namespaces=NS)[0]
                ek = sorted(ekey(e, ipath) for e in s.iter_errors(root, max_depth=k, namespaces=NS))
            except Exception as e:      # noqa: BLE001
                out.append((rec, ver, xml, f"max_depth={k} raised {type(e).__name__}: {e}"[:200]))
                continue
            if dk != cut(full, k):
                out.append((rec, ver, xml, f"decode(max_depth={k}) = {dk!r}, whole result cut at {k} = "
                            f"{cut(full, k)!r}"))
            allk = [ekey(e, ipath) for e in full_errors]
            above = sorted(x for x in allk if x[0] is not None and len(x[0]) + 1 < k)
            if [x for x in ek if x[0] is not None and len(x[0]) + 1 < k] != above or not set(ek) <= set(allk):
                out.append((rec, ver, xml, f"iter_errors(max_depth={k}) = {ek}, whole-document errors above "
                            f"the cut = {above}"))
    return out, n


def judge_identity(job):
    """Partial validation of documents with identity constraints: the errors reported for the selected part
    are the whole-document errors located in it (constraint on the root or on the intermediate element)."""
    from checks import c08
    recs, ver, kind, level = job[:4]
    ids = len(job) > 4        # documents with xs:ID / xs:IDREF(S) rows: no matcher of a known finding applies
    out = []
    n = 0
    s = cm.schema_class(ver)(c08.schema_xsd(1, kind, level, "integer", "attr", "child"))
    ns = {"t": "urn:T"}
    for rec in recs:
        xml = c08.doc_xml(rec["doc"], "integer", "attr")
        root = ET.fromstring(xml)
        ipath = vdoc.index_paths(root)
        try:
            full = [ekey(e, ipath) for e in s.iter_errors(root, namespaces=ns)]
        except Exception as e:      # noqa: BLE001
            out.append((rec, ver, xml, f"raised {type(e).__name__}: {e}"[:200]))
            continue
        selections = [("/t:r/t:s", [(i + 1,) for i in range(len(rec["doc"]))], False),
                      ("t:s", [(i + 1,) for i in range(len(rec["doc"]))], False),
                      ("/t:r/*", [(i + 1,) for i in range(len(rec["doc"]))], False),
                      ("/t:r/t:s/*", [(i + 1, j + 1) for i, sc in enumerate(rec["doc"]) for j in range(len(sc))], True),
                      ("/t:r/t:s/t:k", [(i + 1, j + 1) for i, sc in enumerate(rec["doc"])
                                         for j, r in enumerate(sc) if r["k"] == "k"], True)]
        for i in range(len(rec["doc"])):
            selections.append((f"/t:r/t:s[{i + 1}]", [(i + 1,)], False))
        if ids:
            # xs:ID / xs:IDREF are document-wide: only selections that hold EVERY row are comparable; a selection of
            # the rows themselves separates an ID-typed child element from the parent it identifies in XSD 1.1
            selections = selections[:3] + (selections[3:4] if ver == "1.0" else [])
        for path, roots, rows in selections:
            n += 1
            try:
                perr = [ekey(e, ipath) for e in s.iter_errors(root, path=path, namespaces=ns)]
            except Exception as e:      # noqa: BLE001
                out.append((rec, ver, xml, f"iter_errors(path={path!r}) raised {type(e).__name__}: {e}"[:200]))
                continue
            want = [k for k in full if k[0] is not None and any(k[0][:len(r)] == r for r in roots)]
            # the part's own errors must all be there; on top of them only whole-document errors of the
            # ENCLOSING elements (a key reference is checked when its declaring element ends) may appear
            enclosing = [k for k in full if k[0] is not None and any(len(k[0]) < len(r) and r[:len(k[0])] == k[0]
                                                                     for r in roots)]
            extra = list(perr)
            missing = []
            for k in want:
                if k in extra:
                    extra.remove(k)
                else:
                    missing.append(k)
            pool_ = list(enclosing)
            invented = []
            for k in extra:
                if k in pool_:
                    pool_.remove(k)
                else:
                    invented.append(k)
            if missing or invented:
                # F-C20-a: the dangling references of a constraint declared BELOW the root are reported at the
                # root when the declaring element itself is not part of the selection
                relocated = (not missing and level == "inner" and rows and
                             all(k[0] == () and "not found for Xsd" in k[1] and
                                 any(e[1] == k[1] for e in enclosing) for k in invented))
                # F-C20-c: a key reference of a constraint declared on an ENCLOSING element is resolved against
                # the keys inside the selection only (and counted per selection); likewise a duplicate whose first
                # occurrence lies outside the selection goes unnoticed (or is reported at another occurrence)
                partial_scope = (level == "outer" and
                                 all("duplicated value" in k[1] for k in missing) and
                                 all((k[0] == () and "not found for Xsd" in k[1]) or
                                     ("duplicated value" in k[1] and any(k[0][:len(r)] == r for r in roots))
                                     for k in invented))
                if partial_scope and not relocated:
                    relocated = "c"
                out.append((rec, ver, xml, f"iter_errors(path={path!r}) = {perr}; whole-document errors in the "
                            f"selected part = {want}, of the enclosing elements = {enclosing}: missing {missing}, "
                            f"not explained {invented}",
                            None if ids else "F-C20-c" if relocated == "c" else "F-C20-a" if relocated else None))
    return out, n


def judge_subst(job):
    """Substitution groups (spec/Derivation.tla, mode subst): the child of P selected by an EXPLICIT path is
    validated against its own global declaration (SubstPartialValid) and decodes to the projection of the
    whole-document data when the whole document is valid."""
    from checks import c07
    cfg, types, cases = job
    out = []
    n = 0
    ns = {"t": "urn:T"}
    xsd = c07.xsd_subst(cfg, types)
    for ver in ("1.0", "1.1"):
        schema, err = cm.build(ver, xsd)
        if schema is None:
            continue        # judged by C07
        for child, valid, pvalid in cases:
            xml = c07.xml_subst(cfg, types, child)
            root = ET.fromstring(xml)
            for path in (f"/t:P/t:{child}", f"t:{child}", f"/t:P/t:{child}[1]", "/t:P/*", "*"):
                n += 1
                try:
                    got = schema.is_valid(root, path=path, namespaces=ns)
                    errs = [stable(e.reason)[:120] for e in schema.iter_errors(root, path=path, namespaces=ns)]
                    got_text = schema.is_valid(xml, path=path)
                    part = schema.decode(root, path=path, validation="lax", namespaces=ns)[0]
                    xe = schema.get_element(root[0].tag, "/t:P/*" if path.endswith("*") else f"/t:P/t:{child}", ns)
                except Exception as e:      # noqa: BLE001
                    out.append((ver, child, xml, f"path={path!r} raised {type(e).__name__}: {e}"[:200], None))
                    continue
                # where the child may not stand for H (blocked / abstract; or, F-C07-a, a member of a member under an
                # intermediate block) the schema path admits no such element: the implementation then skips the
                # selected element silently (F-C20-b) - a deviation only if its own declaration is abstract
                weak = (not valid) or (child == "M2" and (cfg["m1sub"] or "sub" in cfg["dflt"]))
                if xe is None and weak:
                    if got is not True or errs:
                        out.append((ver, child, xml, f"is_valid(path={path!r}) = {got}, errors {errs} although no "
                                    f"declaration was found for the selected element", None))
                    elif not pvalid:
                        out.append((ver, child, xml, f"is_valid(path={path!r}) = True without errors: the selected "
                                    f"element (abstract declaration) is skipped", "F-C20-b"))
                    continue
                if xe is None or xe.name != root[0].tag or xe.type is not schema.elements[child].type:
                    out.append((ver, child, xml, f"get_element(path={path!r}) -> {xe!r}: not the declaration of {child}",
                                None))
                elif got != pvalid or got_text != pvalid or bool(errs) == pvalid:
                    out.append((ver, child, xml, f"is_valid(path={path!r}) = {got} (text source: {got_text}), errors "
                                f"{errs}; the element is {'valid' if pvalid else 'invalid'} against its own declaration",
                                None))
                elif valid:
                    full = schema.decode(root, validation="lax", namespaces=ns)[0]
                    want = (full or {}).get(f"t:{child}", KeyError) if isinstance(full, dict) else KeyError
                    if isinstance(part, dict):
                        part = {k: v for k, v in part.items() if not k.startswith("@xmlns")} or None
                    if want is not KeyError and part != want:
                        out.append((ver, child, xml, f"decode(path={path!r}) = {part!r}, projection of the whole "
                                    f"result = {want!r}", None))
    return out, n


def run(ctx: Ctx):
    thorough = ctx.tier == "thorough"
    r = ctx.tlc("Validator", "Validator.cfg", constants={"MaxItems": 2, "Double": "FALSE"}, tag="docs")
    recs = r.json_records()
    if not thorough:
        recs = recs[::2]
    jobs = [(recs[i:i + 60], ver) for ver in ("1.0", "1.1") for i in range(0, len(recs), 60)]
    total = 0
    for bad, n in ctx.pmap(judge, jobs):
        total += n
        for item in bad:
            rec, ver, xml, what = item[:4]
            ctx.report({"ver": ver, "fault": rec["fault"], "nodes": rec["nodes"], "xml": xml,
                        "valid": rec["valid"], "observed": what}, f"{ver} {rec['fault']}: {what[:300]}  [{xml}]",
                       finding=item[4] if len(item) > 4 else None)
    # identity constraints under partial validation (rows without ID/IDREF: those are document-wide)
    from checks import c08
    ijobs = []
    for kind, level in (("key", "inner"), ("unique", "inner"), ("key", "outer")):
        consts = {"NF": 1, "KeyKind": f'"{kind}"', "Level": f'"{level}"', "MaxRows": 3, "MaxScopes": 2,
                  "RowKinds": '{"k", "f"}', "IdVer": '"1.0"'}
        ri = ctx.tlc("Identity", "Identity.cfg", constants=consts, tag=f"ident-{kind}-{level}", workers=4)
        irecs = [x for x in ri.json_records() if c08.canonical(x)]
        if not thorough:
            irecs = irecs[::2]
        ijobs += [(irecs[i:i + 40], ver, kind, level) for ver in ("1.0", "1.1") for i in range(0, len(irecs), 40)]
    # xs:ID / xs:IDREF / xs:IDREFS (attributes and ID-typed child elements): a selection that holds every row
    # reports what the whole document reports
    for idver in ("1.0", "1.1"):
        consts = {"NF": 1, "KeyKind": '"key"', "Level": '"inner"', "MaxRows": 3 if thorough else 2, "MaxScopes": 2,
                  "RowKinds": '{"i", "p", "j", "q"}', "IdVer": f'"{idver}"'}
        ri = ctx.tlc("Identity", "Identity.cfg", constants=consts, tag=f"ident-ids-{idver}", workers=4)
        irecs = [x for x in ri.json_records() if c08.canonical(x)]
        if not thorough:
            irecs = irecs[::2]
        ijobs += [(irecs[i:i + 40], idver, "key", "inner", "ids") for i in range(0, len(irecs), 40)]
    for (irecs_, ver, kind, level, *_), (bad, n) in zip(ijobs, ctx.pmap(judge_identity, ijobs)):
        total += n
        for item in bad:
            rec, ver, xml, what = item[:4]
            ctx.report({"ver": ver, "identity": [kind, level], "doc": rec["doc"], "xml": xml, "observed": what},
                       f"{ver} identity/{kind}/{level}: {what[:400]}  [{xml}]",
                       finding=item[4] if len(item) > 4 else None)
    # substitution-group members selected by explicit paths
    import collections
    rs = ctx.tlc("Derivation", "Derivation.cfg", tag="subst", constants={"Mode": '"subst"', "Small": "TRUE"})
    by = collections.defaultdict(list)
    stypes = {}
    for x in rs.json_records():
        k = json.dumps(x["cfg"], sort_keys=True)
        stypes[k] = x["types"]
        by[k].append((x["inst"], x["valid"], x["pvalid"]))
    keys = sorted(by)
    if not thorough:
        keys = keys[::4]
    sjobs = [(json.loads(k), stypes[k], by[k]) for k in keys]
    for (cfg, ty, _), (bad, n) in zip(sjobs, ctx.pmap(judge_subst, sjobs)):
        total += n
        for ver, child, xml, what, fid in bad:
            ctx.report({"ver": ver, "subst": cfg, "types": ty, "child": child, "xml": xml, "observed": what},
                       f"{ver} substitution {child}: {what[:400]}  [{xml}]", finding=fid)
    ctx.extra["substitution_configurations"] = len(sjobs)
    for rec in recs[:: max(1, len(recs) // 2)][:2]:
        ctx.sample({"xml": vdoc.render(rec["nodes"]),
                    "governing": [(n["path"], n["decl"]) for n in rec["nodes"]][:8]})
    ctx.impl_replays = ctx.evaluations = ctx.nontrivial = total
    ctx.exhaustive = thorough
    ctx.rule = ("documents of spec/Validator.tla (valid and single-fault, <= 2 items); for every declared "
                "element: hook-reported declaration, find() under 4 path spellings, decode/iter_errors with "
                "path= (one element, and all children through a path ending in /*), and max_depth 1..4; quick takes "
                "every 2nd document; both schema classes; plus the key / unique / keyref documents of "
                "spec/Identity.tla (constraint on the root or on the intermediate element) under 5 path selections")
    ctx.assumptions += ["'nothing changes above the cut': data of elements at depth <= k keeps attributes and "
                        "simple text, children below the cut are dropped; errors are compared for elements "
                        "at depth < k",
                        "default converter; paths with prefixes use an explicit namespaces map"]


def replay(ctx: Ctx, case):
    if "subst" in case:
        rs = ctx.tlc("Derivation", "Derivation.cfg", tag="subst", constants={"Mode": '"subst"', "Small": "FALSE"})
        cases = [(x["inst"], x["valid"], x["pvalid"]) for x in rs.json_records()
                 if x["cfg"] == case["subst"] and x["inst"] == case["child"]]
        bad, _ = judge_subst((case["subst"], case["types"], cases))
        for ver, child, xml, what, fid in bad:
            if ver == case["ver"]:
                ctx.report(dict(case, observed=what), what[:300], finding=fid)
        return
    rec = {"nodes": case["nodes"], "fault": case["fault"], "valid": case["valid"]}
    bad, _ = judge(([rec], case["ver"]))
    for rec, ver, xml, what in bad:
        ctx.report(dict(case, observed=what), what[:300])
    ctx.states = ctx.transitions = 1
