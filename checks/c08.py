"""C08 - identity constraints: ID/IDREF and unique/key/keyref are enforced exactly.

Spec: spec/Identity.tla.  A: the streaming machine (reset on entering the declaring element,
collect per selected node, resolve key references on leaving, IDREFs at the end) agrees with the
declarative definition (qualified node sets) on every document of the bounded universe
(invariant StreamingIsDeclarative), errors are never retracted.  B: every finished document TLC
enumerates is rendered (typed fields with different lexical forms of equal values, fields on
attributes or child elements, inner / outer declaring element, two selector spellings) and the
real verdict and error kinds are compared with the spec's.  C: the ident.* hook events (counter reset /
increase, key-reference resolution) recorded during real validations are validated in batch against
Trace_Identity.tla, which walks the known document with the machine's own actions.
"""
from __future__ import annotations

import collections
from decimal import Decimal
import itertools
import json

from harness import cm
from harness.core import Ctx, MachineryError

LEX = {
    "integer": {"v1": ["1", "01", "+1"], "v2": ["2", "02", "+2"]},
    "decimal": {"v1": ["1.0", "1.00", "1"], "v2": ["2.5", "2.50", "02.5"]},
    "boolean": {"v1": ["true", "1"], "v2": ["false", "0"]},
    "string": {"v1": ["x"], "v2": ["y"]},
    "QName": {"v1": ["p:a", "q:a"], "v2": ["p:b", "q:b"]},
}
NSDECL = 'xmlns:t="urn:T" xmlns:p="urn:P" xmlns:q="urn:P"'


def schema_xsd(nf, kind, level, typ, loc, sel):
    # sel: "child" (s/k), "desc" (.//k), "xdn" (XSD 1.1: the paths are written WITHOUT prefixes and the schema
    # element carries xpathDefaultNamespace="##targetNamespace", inherited by every selector and field)
    px = "" if sel == "xdn" else "t:"

    def fields():
        if loc in ("attr", "alt"):
            return "".join(f'<xs:field xpath="@a{i}"/>' for i in range(1, nf + 1))
        return "".join(f'<xs:field xpath="{px}c{i}"/>' for i in range(1, nf + 1))

    def selector(name):
        if level == "inner":
            return f"{px}{name}"
        return f".//{px}{name}" if sel == "desc" else f"{px}s/{px}{name}"
    cons = (f'<xs:{kind} name="K"><xs:selector xpath="{selector("k")}"/>{fields()}</xs:{kind}>'
            f'<xs:keyref name="R" refer="t:K"><xs:selector xpath="{selector("f")}"/>{fields()}</xs:keyref>')
    cons_s = cons_r = ""
    if level == "inner":
        cons_s = cons
    elif level == "outer":
        cons_r = cons
    else:       # cross: the key / unique on the scope element s, the key reference on the root r
        level = "inner"
        cons_s = f'<xs:{kind} name="K"><xs:selector xpath="{selector("k")}"/>{fields()}</xs:{kind}>'
        level = "cross"
        cons_r = (f'<xs:keyref name="R" refer="t:K"><xs:selector xpath="{".//t:f" if sel == "desc" else px + "s/" + px + "f"}"/>'
                  f'{fields()}</xs:keyref>')
    rowdecl = '<xs:element name="k" type="t:row"/><xs:element name="f" type="t:row"/>'
    extra = ""
    if loc == "alt":
        # XSD 1.1: the declared type of the rows leaves the fields untyped, a type alternative (always chosen)
        # gives them their type: the values must be compared in the value space of the ALTERNATIVE's type
        row = "".join(f'<xs:attribute name="a{i}" type="xs:{typ}"/>' for i in range(1, nf + 1))
        row = f'<xs:complexContent><xs:restriction base="t:row0">{row}</xs:restriction></xs:complexContent>'
        extra = ('<xs:complexType name="row0">' + "".join(
            f'<xs:attribute name="a{i}" type="xs:anySimpleType"/>' for i in range(1, nf + 1)) + '</xs:complexType>')
        rowdecl = "".join(f'<xs:element name="{n}" type="t:row0"><xs:alternative test="true()" type="t:row"/>'
                          f'</xs:element>' for n in ("k", "f"))
    elif loc == "attr":
        row = "".join(f'<xs:attribute name="a{i}" type="xs:{typ}"/>' for i in range(1, nf + 1))
    else:
        row = "<xs:sequence>" + "".join(
            f'<xs:element name="c{i}" type="xs:{typ}" minOccurs="0"/>' for i in range(1, nf + 1)) \
            + "</xs:sequence>"
    xdn = ' xpathDefaultNamespace="##targetNamespace"' if sel == "xdn" else ""
    return (f'<xs:schema xmlns:xs="{cm.XS}" targetNamespace="urn:T" {NSDECL} '
            f'elementFormDefault="qualified"{xdn}>'
            f'<xs:element name="r"><xs:complexType><xs:sequence>'
            f'<xs:element name="s" minOccurs="0" maxOccurs="unbounded"><xs:complexType>'
            f'<xs:choice minOccurs="0" maxOccurs="unbounded">'
            f'{rowdecl}'
            f'<xs:element name="i" type="t:idrow"/><xs:element name="p" type="t:refrow"/>'
            f'<xs:element name="j" type="xs:ID"/><xs:element name="q" type="t:refsrow"/>'
            f'</xs:choice></xs:complexType>{cons_s}</xs:element>'
            f'</xs:sequence></xs:complexType>{cons_r}</xs:element>'
            f'{extra}<xs:complexType name="row">{row}</xs:complexType>'
            f'<xs:complexType name="idrow"><xs:attribute name="id" type="xs:ID"/></xs:complexType>'
            f'<xs:complexType name="refrow"><xs:attribute name="ref" type="xs:IDREF"/></xs:complexType>'
            f'<xs:complexType name="refsrow"><xs:attribute name="refs" type="xs:IDREFS"/></xs:complexType>'
            f'</xs:schema>')


def doc_xml(doc, typ, loc):
    """Equal values get different lexical forms: the n-th use of a value takes its n-th form."""
    used = collections.Counter()

    def lex(v):
        forms = LEX[typ][v]
        s = forms[used[v] % len(forms)]
        used[v] += 1
        return s
    out = [f"<t:r {NSDECL}>"]
    for scope in doc:
        out.append("<t:s>")
        for r in scope:
            k, t = r["k"], r["t"]
            if k in "kf":
                if loc in ("attr", "alt"):
                    at = "".join(f' a{i + 1}="{lex(v)}"' for i, v in enumerate(t) if v != "none")
                    out.append(f"<t:{k}{at}/>")
                else:
                    ch = "".join(f"<t:c{i + 1}>{lex(v)}</t:c{i + 1}>" for i, v in enumerate(t) if v != "none")
                    out.append(f"<t:{k}>{ch}</t:{k}>")
            elif k == "i":
                out.append(f'<t:i id="id_{t[0]}"/>')
            elif k == "j":
                out.append(f"<t:j> id_{t[0]} </t:j>")
            elif k == "q":
                out.append(f'<t:q refs="id_{t[0]}  id_{t[1]}"/>')
            else:
                out.append(f'<t:p ref="id_{t[0]}"/>')
        out.append("</t:s>")
    out.append("</t:r>")
    return "".join(out)


def kinds_of(errors):
    ks = set()
    other = []
    for e in errors:
        msg = str(getattr(e, "reason", None) or e)
        if "duplicated value" in msg:
            ks.add("dup")
        elif "missing key field" in msg:
            ks.add("missing")
        elif "not found for" in msg:
            ks.add("dangling")
        elif "duplicated xs:ID" in msg or "no more than one attribute of type ID" in msg:
            ks.add("iddup")
        elif "IDREF" in msg and "not found" in msg:
            ks.add("idref")
        else:
            other.append(msg[:120])
    return ks, other


_schemas: dict = {}


def judge(job):
    rec, variants = job
    out = []
    for ver, typ, loc, sel in variants:
        if rec.get("idver"):
            if loc == "alt" or (sel == "xdn" and rec["idver"] != "1.1"):
                continue
            ver = rec["idver"]       # the expectation of this record is the one of that XSD version
        key = (ver, rec["nf"], rec["kind"], rec["level"], typ, loc, sel)
        if key not in _schemas:
            s, err = cm.build(ver, schema_xsd(rec["nf"], rec["kind"], rec["level"], typ, loc, sel))
            if s is None:
                raise MachineryError(f"template schema does not build: {key}: {err}")
            _schemas[key] = s
        s = _schemas[key]
        xml = doc_xml(rec["doc"], typ, loc)
        want = set(rec["kinds"])
        try:
            errors = list(s.iter_errors(xml))
            valid = s.is_valid(xml)
        except Exception as e:      # noqa: BLE001
            out.append((ver, typ, loc, sel, f"raised {type(e).__name__}: {e}"[:200], xml))
            continue
        got, other = kinds_of(errors)
        # F-C08-c: exactly what the deviation 'lastscope' of the specification predicts (cross level only)
        fid = "F-C08-c" if (rec["level"] == "cross" and not other and got == set(rec["lastscope"])
                            and valid == (not got)) else None
        if valid != (not want):
            out.append((ver, typ, loc, sel, f"is_valid={valid}, spec expects errors {sorted(want)}; "
                        f"reported {sorted(got)} {other[:2]}", xml, fid))
        elif valid != (not errors):
            out.append((ver, typ, loc, sel, "is_valid and iter_errors disagree", xml))
        elif got != want or other:
            out.append((ver, typ, loc, sel, f"error kinds {sorted(got)} {other[:2]}, "
                        f"spec expects {sorted(want)}", xml, fid))
    return out


# ----------------------------------------------------------------------------- traces (C)
VALUE_CLASS = {"integer": lambda x: {1: "v1", 2: "v2"}.get(int(x)),
               "decimal": lambda x: {"1": "v1", "1.0": "v1", "2.5": "v2"}.get(str(Decimal(x).normalize()) if Decimal(x) != Decimal(x).to_integral() else str(int(Decimal(x)))),
               "string": lambda x: {"x": "v1", "y": "v2"}.get(x)}


def trace_job(job):
    """One real validation with the ident.* hooks on: -> trace record for Trace_Identity.tla (or None)."""
    rec, ver, typ, loc = job
    from xmlschema import _verif_trace as vt
    s, err = cm.build(ver, schema_xsd(rec["nf"], rec["kind"], rec["level"], typ, loc, "child"))
    xml = doc_xml(rec["doc"], typ, loc)
    ev = vt.start()
    try:
        list(s.iter_errors(xml))
    finally:
        vt.stop()
    out = []
    for e in ev:
        if not e["ev"].startswith("ident."):
            continue
        ident = "K" if e["identity"].endswith("}K") else "R"
        if e["ev"] == "ident.reset":
            out.append({"e": "reset", "id": ident, "t": [], "n": 0})
        elif e["ev"] == "ident.add":
            t = [VALUE_CLASS[typ](x) or f"?{x}" for x in e["fields"]]
            out.append({"e": "add", "id": ident, "t": t, "n": e["count"]})
        else:
            out.append({"e": "resolve", "id": ident, "t": [], "n": e["dangling"]})
    return {"doc": rec["doc"], "ev": out, "about": f"{ver} {rec['kind']}/{rec['level']}/nf{rec['nf']}/{typ}/{loc}",
            "xml": xml}


def validate_identity_traces(ctx, nf, kind, level, trs, tag):
    import re
    path = ctx.work / f"ident_{tag}_{len(ctx.tlc_runs)}.json"
    path.write_text(json.dumps([{"doc": t["doc"], "ev": t["ev"]} for t in trs]))
    cfg = ("SPECIFICATION TSpec\nCONSTRAINT Mark\nPOSTCONDITION Post\nCHECK_DEADLOCK FALSE\nCONSTANTS\n"
           f' NF = {nf}\n KeyKind = "{kind}"\n Level = "{level}"\n MaxRows = 99\n MaxScopes = 99\n'
           ' RowKinds = {"k", "f", "i", "p", "j", "q"}\n IdVer = "1.0"\n')
    r = ctx.tlc("Trace_Identity", cfg_text=cfg, workers=1, env={"TRACE_FILE": str(path)}, tag=f"trace-{tag}")
    flat = re.sub(r"\s+", " ", r.out)
    m = re.search(r'<< ?"rejected", \{([^}]*)\} ?>>', flat)
    if not m:
        raise MachineryError("identity trace validation produced no verdict")
    rejected = [int(x) for x in m.group(1).replace(" ", "").split(",") if x]
    reasons = {}
    for t, l, why in re.findall(r'<< ?(\d+), (\d+), "([^"]+)" ?>>', flat):
        reasons.setdefault(int(t), (int(l), why))
    return [(t, *reasons.get(t, (0, "no behaviour of the streaming machine explains the recorded events")))
            for t in rejected]


def trace_phase(ctx: Ctx, recs, thorough):
    import collections
    groups = collections.defaultdict(list)
    pick = [r for i, r in enumerate(recs) if (thorough or i % 3 == 0) and not r.get("idver")
            and r["level"] != "cross"]      # F-C08-c: the implementation's events do not follow the machine there
    jobs = [(r, "1.0" if i % 2 else "1.1", ("integer", "string", "decimal")[i % 3], "attr" if i % 4 < 2 else "elem")
            for i, r in enumerate(pick)]
    for (r, *_), tr in zip(jobs, ctx.pmap(trace_job, jobs)):
        groups[(r["nf"], r["kind"], r["level"])].append(tr)
    n = 0
    for (nf, kind, level), trs in sorted(groups.items()):
        n += len(trs)
        for t, l, why in validate_identity_traces(ctx, nf, kind, level, trs, f"{nf}{kind}{level}"):
            tr = trs[t - 1]
            ctx.report({"driver": "trace", "about": tr["about"], "doc": tr["doc"], "events": tr["ev"], "xml": tr["xml"],
                        "event": l, "observed": why}, f"identity trace {tr['about']} rejected at event {l}: {why}  "
                       f"[{tr['xml']}]")
        # the binding is real: drop the resolve events / bump a count -> rejected
        probe = json.loads(json.dumps(trs[:30]))
        touched = set()
        for i, t in enumerate(probe):
            k = [j for j, e in enumerate(t["ev"]) if e["e"] == ("resolve" if i % 2 else "add")]
            if k:
                if i % 2:
                    del t["ev"][k[0]]
                else:
                    t["ev"][k[0]]["t"] = ["v2" if x == "v1" else "v1" for x in t["ev"][k[0]]["t"]]
                touched.add(i + 1)
        rej = {t for t, _, _ in validate_identity_traces(ctx, nf, kind, level, probe, f"selftest-{nf}{kind}{level}")}
        if not touched <= rej:
            raise MachineryError(f"corrupted identity traces accepted: {sorted(touched - rej)[:5]}")
    ctx.impl_traces += n
    some = next(iter(groups.values()))[0]
    ctx.sample({"trace": some["about"], "xml": some["xml"], "events": some["ev"][:8]})


def variants_for(i, thorough):
    types = list(LEX)
    if thorough:
        return [(ver, typ, loc, sel) for ver in ("1.0", "1.1") for typ in types
                for loc in ("attr", "elem") for sel in ("child", "desc")] + \
            [("1.1", typ, "alt", sel) for typ in types if typ != "QName" for sel in ("child", "desc")] + \
            [("1.1", typ, loc, "xdn") for typ in types for loc in ("attr", "elem")]
    # quick: rotate through the combinations so that the whole matrix is covered across documents
    combos = [(ver, typ, loc, sel) for ver in ("1.0", "1.1") for typ in types
              for loc in ("attr", "elem") for sel in ("child", "desc")]
    alts = [("1.1", typ, "alt", sel) for typ in types if typ != "QName" for sel in ("child", "desc")]
    xdns = [("1.1", typ, loc, "xdn") for typ in types for loc in ("attr", "elem")]
    return [combos[(i * 3 + j * 13) % len(combos)] for j in range(2)] + [alts[i % len(alts)], xdns[i % len(xdns)]]


def configs(tier):
    out = []
    for nf in (1, 2):
        for kind in ("key", "unique"):
            for level in ("inner", "outer"):
                out.append({"NF": nf, "KeyKind": f'"{kind}"', "Level": f'"{level}"',
                            "MaxRows": 3 if (tier == "quick" or nf == 2) else 4, "MaxScopes": 2,
                            "RowKinds": '{"k", "f"}', "IdVer": '"1.0"'})
    for kind in ("key", "unique"):      # key on the scope elements, key reference on the root (propagated tables)
        out.append({"NF": 1, "KeyKind": f'"{kind}"', "Level": '"cross"', "MaxRows": 3 if tier == "quick" else 4,
                    "MaxScopes": 3, "RowKinds": '{"k", "f"}', "IdVer": '"1.0"'})
    out.append({"NF": 1, "KeyKind": '"key"', "Level": '"outer"', "MaxRows": 4 if tier == "quick" else 5,
                "MaxScopes": 2, "RowKinds": '{"i", "p"}', "IdVer": '"1.0"'})
    out.append({"NF": 1, "KeyKind": '"key"', "Level": '"inner"', "MaxRows": 3, "MaxScopes": 2,
                "RowKinds": '{"k", "f", "i", "p"}', "IdVer": '"1.0"'})
    for idver in ("1.0", "1.1"):        # an ID-typed child element binds differently in the two versions
        out.append({"NF": 1, "KeyKind": '"key"', "Level": '"outer"', "MaxRows": 3 if tier == "quick" else 4,
                    "MaxScopes": 2, "RowKinds": '{"i", "j", "p", "q"}', "IdVer": f'"{idver}"'})
    return out


def canonical(rec):
    """Documents that differ only by renaming v1<->v2 are the same case for the implementation
    (values are rendered symmetrically); keep one representative."""
    def ren(d, m):
        return [[{"k": r["k"], "t": [m.get(v, v) for v in r["t"]]} for r in s] for s in d]
    a = json.dumps(rec["doc"], sort_keys=True)
    b = json.dumps(ren(rec["doc"], {"v1": "v2", "v2": "v1"}), sort_keys=True)
    return a <= b


def run(ctx: Ctx):
    thorough = ctx.tier == "thorough"
    cfgs = configs(ctx.tier)
    # non-vacuity of the cross level: the implementation-shaped deviation (references resolved against the table of
    # the last scope element only) must violate StreamingIsDeclarative
    ref = ctx.tlc("Identity", cfg_text="SPECIFICATION Spec\nINVARIANT StreamingIsDeclarative\nCHECK_DEADLOCK FALSE\n"
                  "CONSTANT CrossVariant <- LastScopeVariant\n",
                  constants={"NF": 1, "KeyKind": '"key"', "Level": '"cross"', "MaxRows": 3, "MaxScopes": 3,
                             "RowKinds": '{"k", "f"}', "IdVer": '"1.0"'},
                  expect_violation=True, count=False, tag="cross-lastscope")
    if "StreamingIsDeclarative" not in ref.invariant_violated:
        raise MachineryError("the deviation 'lastscope' is not refuted: the cross level is vacuous")
    results = ctx.parallel([(lambda c=c: ctx.tlc("Identity", "Identity.cfg", constants=c, workers=4,
                                                 tag=f"{c['NF']}{c['KeyKind']}{c['Level']}".replace('"', '')))
                            for c in cfgs], width=4)
    recs = []
    for c, r in zip(cfgs, results):
        for n_, x in enumerate(r.json_records()):
            if not thorough and "cross" in c["Level"] and n_ % 3:
                continue        # quick: every 3rd document of the (large) cross level
            if canonical(x):
                if '"j"' in c["RowKinds"]:
                    x["idver"] = c["IdVer"].strip('"')
                recs.append(x)
    jobs = [(rec, variants_for(i, thorough)) for i, rec in enumerate(recs)]
    res = ctx.pmap(judge, jobs)
    n = 0
    for (rec, vs), bad in zip(jobs, res):
        n += len(vs)
        for ver, typ, loc, sel, what, xml, *fid in bad:
            ctx.report({"ver": ver, "type": typ, "loc": loc, "selector": sel, "spec": rec, "xml": xml,
                        "xsd": schema_xsd(rec["nf"], rec["kind"], rec["level"], typ, loc, sel),
                        "observed": what},
                       f"{ver} {rec['kind']}/{rec['level']}/{typ}/{loc}/{sel}: {what}",
                       finding=fid[0] if fid else None)
    trace_phase(ctx, recs, thorough)
    for rec in recs[:: max(1, len(recs) // 4)][:4]:
        ctx.sample({"constraint": rec["kind"], "level": rec["level"], "doc": rec["doc"],
                    "expected_error_kinds": rec["kinds"]})
    ctx.impl_replays = ctx.evaluations = n
    ctx.nontrivial = len(recs)
    ctx.exhaustive = True
    ctx.rule = ("every document (<=2 scope elements, bounded number of rows; key/keyref rows with "
                "1-2 fields over {v1, v2, absent}; ID / IDREF rows) enumerated by TLC from "
                "spec/Identity.tla, up to renaming of values; each judged under several renderings "
                "(schema class x field type x attribute/element fields x selector spelling; XSD 1.1 also with the rows typed by a type alternative)")
    ctx.assumptions += [
        "field values are value-space classes; the renderer gives equal values different lexical "
        "forms (1/01/+1, 1.0/1.00, true/1, same QName under two prefixes)",
        "cross level: the key / unique is declared on the scope elements, the key reference on the root; the "
        "tables of the scope elements are propagated to the root minus conflicting key sequences"]
    ctx.extra["documents"] = len(recs)


def replay(ctx: Ctx, case):
    rec = case["spec"]
    for ver, typ, loc, sel, what, xml, *fid in judge((rec, [(case["ver"], case["type"], case["loc"],
                                                            case["selector"])])):
        ctx.report(dict(case, observed=what), what, finding=fid[0] if fid else None)
    ctx.states = ctx.transitions = 1
