"""C11 - every input ends in a verdict or a library error; documented limits hold.

Spec: spec/Lazy.tla - the loaders' counters: a document is refused exactly when it is deeper than
MaxDepth (both loaders) or has more elements than MaxElems (full loading); TLC checks LimitsExact on
every document shape and emits (shape, limits, loader, outcome).  B: (i) every emitted case is run
with the package limits set accordingly (full and lazy loading, through XMLResource and through
validation); the defaults are probed at limit-1, limit, limit+1; (ii) every truncation point and
seeded garbling of pool documents, and (iii) hostile values (huge numbers and years, odd QNames,
stray xsi attributes, unknown namespaces) in all validation modes: the outcome must be a verdict or
an exception of the library's hierarchy, and lax mode must not raise for a well-formed document.
"""
from __future__ import annotations

import random
import warnings

from harness import cm, pool
from harness.core import Ctx

ANY_XSD = (f'<xs:schema xmlns:xs="{cm.XS}"><xs:element name="n" type="T"/>'
           '<xs:complexType name="T"><xs:sequence><xs:element ref="n" minOccurs="0" maxOccurs="unbounded"/>'
           '</xs:sequence></xs:complexType></xs:schema>')
TYPED_XSD = (f'<xs:schema xmlns:xs="{cm.XS}" targetNamespace="urn:T" xmlns:t="urn:T" elementFormDefault="qualified">'
             '<xs:element name="r"><xs:complexType><xs:sequence>'
             '<xs:element name="i" type="xs:int" minOccurs="0"/><xs:element name="d" type="xs:date" minOccurs="0"/>'
             '<xs:element name="g" type="xs:gYear" minOccurs="0"/><xs:element name="q" type="xs:QName" minOccurs="0"/>'
             '<xs:element name="dt" type="xs:dateTime" minOccurs="0"/><xs:element name="du" type="xs:duration" minOccurs="0"/>'
             '<xs:element name="f" type="xs:double" minOccurs="0"/><xs:element name="x" type="xs:hexBinary" minOccurs="0"/>'
             '<xs:element name="l" minOccurs="0"><xs:simpleType><xs:list itemType="xs:unsignedByte"/></xs:simpleType></xs:element>'
             '<xs:any namespace="##other" processContents="lax" minOccurs="0" maxOccurs="unbounded"/>'
             '</xs:sequence><xs:attribute name="a" type="xs:integer"/><xs:anyAttribute processContents="lax"/>'
             '</xs:complexType></xs:element></xs:schema>')
XSI = 'xmlns:xsi="http://www.w3.org/2001/XMLSchema-instance"'
# identity constraints over typed fields: the field values are evaluated by the XPath engine
IDENT_XSD = (f'<xs:schema xmlns:xs="{cm.XS}" targetNamespace="urn:T" xmlns:t="urn:T" elementFormDefault="qualified">'
             '<xs:element name="r"><xs:complexType><xs:sequence>'
             '<xs:element name="it" maxOccurs="unbounded"><xs:complexType><xs:sequence>'
             '<xs:element name="u" type="xs:decimal" minOccurs="0"/><xs:element name="d" type="xs:date" minOccurs="0"/>'
             '<xs:element name="b" type="xs:boolean" minOccurs="0"/>'
             '</xs:sequence><xs:attribute name="k" type="xs:int"/><xs:attribute name="ref" type="xs:int"/>'
             '</xs:complexType></xs:element></xs:sequence></xs:complexType>'
             '<xs:key name="K"><xs:selector xpath="t:it"/><xs:field xpath="@k"/></xs:key>'
             '<xs:unique name="U"><xs:selector xpath="t:it"/><xs:field xpath="t:u"/></xs:unique>'
             '<xs:unique name="D"><xs:selector xpath="t:it"/><xs:field xpath="t:d"/><xs:field xpath="t:b"/></xs:unique>'
             '<xs:keyref name="R" refer="t:K"><xs:selector xpath="t:it"/><xs:field xpath="@ref"/></xs:keyref>'
             '</xs:element></xs:schema>')
IDENT_VALUES = {"k": ["1", "x", "", " 2 ", "1e3", "9" * 30, "+3", "١"],
                "ref": ["1", "y", "9" * 30, ""],
                "u": ["1.0", "abc", "1,5", "", "1e2", "٣", "." ],
                "d": ["2024-01-01", "99999999999999999999-01-01", "2024-13-01", "x", "", "-0001-01-01", "0000-01-01"],
                "b": ["true", "maybe", "", "2"]}
# XSD 1.1 type alternatives whose tests fail dynamically on some instances
ALT_XSD = (f'<xs:schema xmlns:xs="{cm.XS}">'
           '<xs:element name="r"><xs:complexType><xs:sequence>'
           '<xs:element name="e" maxOccurs="unbounded" type="xs:anySimpleType">'
           '<xs:alternative test="xs:integer(@n) idiv xs:integer(@m) = 1" type="xs:int"/>'
           '<xs:alternative test="@n div @m &gt; 1" type="xs:date"/>'
           '<xs:alternative test="xs:date(@n) &gt; xs:date(\'2000-01-01\')" type="xs:boolean"/>'
           '<xs:alternative type="xs:string"/>'
           '</xs:element></xs:sequence></xs:complexType></xs:element></xs:schema>')
ALT_ATTRS = [("6", "0"), ("6", "5"), ("x", "1"), ("1", "y"), ("2024-01-01", "0"), ("", ""), ("1e400", "1e-400"),
             ("9" * 40, "1"), ("INF", "0"), ("NaN", "NaN"), (None, "1"), ("1", None)]
HOSTILE = [
    "<t:i>" + "9" * 400 + "</t:i>", "<t:i>-" + "9" * 40 + "</t:i>", "<t:i>1e5</t:i>", "<t:i>١٢</t:i>",
    "<t:d>99999999999-01-01</t:d>", "<t:d>-99999999999-12-31</t:d>", "<t:d>2024-02-30</t:d>",
    "<t:d>0000-01-01</t:d>", "<t:g>123456789012345678901234567890</t:g>", "<t:g>-0</t:g>",
    "<t:dt>9999999999999-12-31T24:00:00Z</t:dt>", "<t:dt>2024-01-01T25:61:61</t:dt>",
    "<t:du>P99999999999999999999Y</t:du>", "<t:du>PT1e3S</t:du>", "<t:f>1e999999</t:f>", "<t:f>nan</t:f>",
    "<t:x>0g</t:x>", "<t:x>" + "ab" * 5000 + "</t:x>", "<t:l>1 256 x</t:l>", "<t:l>" + "7 " * 3000 + "</t:l>",
    "<t:q>a:b:c</t:q>", "<t:q>unbound:x</t:q>", "<t:q>:x</t:q>", "<t:q> </t:q>",
    '<u:zzz xmlns:u="urn:U" xsi:type="nope:T"/>', '<u:zzz xmlns:u="urn:U" xsi:nil="maybe"/>',
    '<u:zzz xmlns:u="urn:U"><u:deep><u:deeper a="1"/></u:deep></u:zzz>',
]
ROOT_ATTRS = ["", ' xsi:type="t:nope"', ' xsi:type="xs:string"', ' xsi:nil="true"', ' xsi:nil="2"',
              ' xsi:schemaLocation="urn:T"', ' xsi:schemaLocation="urn:Z nowhere.xsd"',
              ' xsi:noNamespaceSchemaLocation="http://verif.test/x.xsd"', ' a="' + "1" * 300 + '"',
              ' xsi:bogus="1"', ' xmlns:z="urn:Z" z:a="1"']


def shape_xml(shape):
    out, stack = [], []
    for lvl in shape:
        while len(stack) > lvl:
            out.append("</n>")
            stack.pop()
        out.append("<n>")
        stack.append(lvl)
    out.append("</n>" * len(stack))
    return "".join(out)


def library_error(e):
    import xmlschema
    return isinstance(e, xmlschema.XMLSchemaException)


def limits_case(job):
    recs, maxdepth, maxelems, lazy = job
    import xmlschema
    from xmlschema import limits
    from xmlschema.exceptions import XMLResourceExceeded
    out = []
    old = limits.MAX_XML_DEPTH, limits.MAX_XML_ELEMENTS
    with warnings.catch_warnings():
        warnings.simplefilter("ignore")
        schema = xmlschema.XMLSchema(ANY_XSD)       # the schema document itself is loaded under the defaults
    limits.MAX_XML_DEPTH, limits.MAX_XML_ELEMENTS = maxdepth, maxelems
    try:
        for rec in recs:
            xml = shape_xml(rec["shape"])
            for via in ("resource", "validate"):
                exc = None
                try:
                    if via == "resource":
                        res = xmlschema.XMLResource(xml, lazy=lazy)
                        n = sum(1 for _ in res.iter()) if lazy else sum(1 for _ in res.root.iter())
                    else:
                        list(schema.iter_errors(xmlschema.XMLResource(xml, lazy=lazy) if lazy else xml))
                except Exception as e:      # noqa: BLE001
                    exc = e
                want = rec["outcome"]
                if want == "refused":
                    if not isinstance(exc, XMLResourceExceeded):
                        out.append((rec, via, f"document beyond the limit not refused with the resource error: "
                                    f"{type(exc).__name__ if exc else 'processed'}"))
                elif exc is not None:
                    out.append((rec, via, f"document within the limits refused: {type(exc).__name__}: "
                                f"{str(exc)[:100]}"))
    finally:
        limits.MAX_XML_DEPTH, limits.MAX_XML_ELEMENTS = old
    return [(r, v, w, maxdepth, maxelems, lazy) for r, v, w in out], len(recs) * 2


def default_limits_case(job):
    depth, lazy = job
    import xmlschema
    from xmlschema import limits
    from xmlschema.exceptions import XMLResourceExceeded
    out = []
    xml = "<n>" * depth + "</n>" * depth
    want_refused = depth > limits.MAX_XML_DEPTH
    exc = None
    try:
        res = xmlschema.XMLResource(xml, lazy=lazy)
        if lazy:
            for _ in res.iter():
                pass
    except Exception as e:      # noqa: BLE001
        exc = e
    if want_refused != isinstance(exc, XMLResourceExceeded) or (exc is not None and not want_refused):
        out.append((depth, lazy, "load", f"{type(exc).__name__ if exc else 'processed'}; depth limit "
                    f"{limits.MAX_XML_DEPTH}: expected {'refused' if want_refused else 'processed'}"))
    if not want_refused:
        try:
            with warnings.catch_warnings():
                warnings.simplefilter("ignore")
                schema = xmlschema.XMLSchema(ANY_XSD)
            schema.is_valid(xmlschema.XMLResource(xml, lazy=lazy) if lazy else xml)
        except Exception as e:      # noqa: BLE001
            if not library_error(e):
                out.append((depth, lazy, "validate", f"foreign exception {type(e).__name__} for a document of "
                            f"depth {depth} (limit {limits.MAX_XML_DEPTH})"))
    return out


def outcome_case(job):
    """-> disagreements for one (xsds, xml bytes, description, well_formed)."""
    xsds, data, about, well_formed = job[:4]
    import xmlschema
    out = []
    cls = xmlschema.XMLSchema11 if len(job) > 4 and job[4] == "1.1" else xmlschema.XMLSchema10
    with warnings.catch_warnings():
        warnings.simplefilter("ignore")
        schema = cls(list(xsds) if len(xsds) > 1 else xsds[0])
    calls = [("is_valid", lambda: schema.is_valid(data)),
             ("iter_errors", lambda: list(schema.iter_errors(data))),
             ("decode lax", lambda: schema.decode(data, validation="lax")),
             ("decode strict", lambda: schema.decode(data)),
             ("decode skip", lambda: schema.decode(data, validation="skip")),
             ("lazy iter_errors", lambda: list(schema.iter_errors(xmlschema.XMLResource(data, lazy=True))))]
    for name, fn in calls:
        try:
            fn()
        except Exception as e:      # noqa: BLE001
            if not library_error(e):
                out.append((about, name, f"foreign exception {type(e).__name__}: {str(e)[:120]}"))
            elif well_formed and name in ("is_valid", "iter_errors", "decode lax", "decode skip",
                                          "lazy iter_errors") \
                    and not isinstance(e, xmlschema.XMLResourceError):
                out.append((about, name, f"lax/collecting entry point raised {type(e).__name__} for a "
                            f"well-formed document: {str(getattr(e, 'reason', None) or e)[:120]}"))
    return out


def known(where, what):
    if "RecursionError" in what:
        return "F-C11-b"
    return None


def run(ctx: Ctx):
    thorough = ctx.tier == "thorough"
    total = 0
    # (i) limits: spec cases
    settings = [(1, 9, True), (2, 9, True), (3, 9, False), (2, 2, False), (9, 3, False), (3, 4, False),
                (4, 5, True), (9, 1, False), (9, 2, True), (3, 3, True)]
    runs = ctx.parallel([(lambda s=s: ctx.tlc("Lazy", "Lazy.cfg", workers=2, tag=f"A-{s}",
                                              constants={"D": 1, "Thin": "FALSE", "MaxLen": 6 if thorough else 5,
                                                         "MaxDepth": s[0], "MaxElems": s[1],
                                                         "LazyMode": "TRUE" if s[2] else "FALSE"}))
                         for s in settings], width=8)
    jobs = [(r.json_records(), s[0], s[1], s[2]) for r, s in zip(runs, settings)]
    for bad, n in ctx.pmap(limits_case, jobs):
        total += n
        for rec, via, what, md, me, lazy in bad:
            ctx.report({"driver": "limits", "shape": rec["shape"], "MaxDepth": md, "MaxElems": me, "lazy": lazy,
                        "via": via, "spec_outcome": rec["outcome"], "observed": what},
                       f"limits depth<={md} elements<={me} {'lazy' if lazy else 'full'} [{via}] "
                       f"shape {rec['shape']}: {what}")
    djobs = [(d, lz) for d in (999, 1000, 1001) for lz in (False, True)]
    for bad in ctx.pmap(default_limits_case, djobs):
        total += 1
        for depth, lazy, stage, what in bad:
            ctx.report({"driver": "default-limits", "depth": depth, "lazy": lazy, "stage": stage, "observed": what},
                       f"default limits, depth {depth}, {'lazy' if lazy else 'full'} [{stage}]: {what}",
                       finding=known(stage, what))
    # (ii) truncation and garbling of pool documents
    cases = pool.build_pool(ctx, scale=3)
    rng = random.Random(ctx.seed)
    rng.shuffle(cases)
    chosen = cases[: (200 if thorough else 40)]
    jobs = []
    for c in chosen:
        data = c["xml"].encode("utf-8")
        for cut in range(1, len(data), 1 if thorough else 3):
            jobs.append((tuple(c["xsds"]), data[:cut], f"{c['about']} truncated at byte {cut}", False))
        for k in range(12 if thorough else 5):
            pos = rng.randrange(len(data))
            b = rng.choice([b"<", b"&", b"\x00", b"\xff", b">", b'"', b"]]>", b"\xef\xbb\xbf"])
            jobs.append((tuple(c["xsds"]), data[:pos] + b + data[pos + 1:],
                         f"{c['about']} byte {pos} replaced by {b!r}", False))
        jobs.append((tuple(c["xsds"]), data, c["about"], True))
    # (iii) hostile values
    for h in HOSTILE:
        for ra in ROOT_ATTRS[:: (1 if thorough else 3)]:
            xml = f'<t:r xmlns:t="urn:T" xmlns:xs="{cm.XS}" {XSI}{ra}>{h}</t:r>'
            jobs.append(((TYPED_XSD,), xml.encode("utf-8"), f"hostile {h[:40]} root attrs {ra[:30]}", True))
    # (iv) ill-typed values in identity-constraint fields (both versions); unknown xsi:type on declared
    # children; XSD 1.1 alternatives whose tests raise dynamic errors
    for ver in ("1.0", "1.1"):
        for name, values in IDENT_VALUES.items():
            for v in values:
                for other in ("", '<t:it k="1"><t:u>1.0</t:u><t:d>2024-01-01</t:d><t:b>true</t:b></t:it>'):
                    it = (f'<t:it {name}="{v}"/>' if name in ("k", "ref") else
                          f'<t:it k="7">{"<t:u>1</t:u>" if name in "db" else ""}'
                          f'{"<t:d>2000-01-01</t:d>" if name == "b" else ""}<t:{name}>{v}</t:{name}></t:it>')
                    xml = f'<t:r xmlns:t="urn:T">{other}{it}</t:r>'
                    jobs.append(((IDENT_XSD,), xml.encode("utf-8"), f"identity field {name}={v[:30]!r} ({ver})",
                                 True, ver))
        for xt in ("nope", "t:nope", "xs:nope", "unbound:x", "xs:string", "", "t:", ":x", "xs:int xs:int"):
            xml = (f'<t:r xmlns:t="urn:T" xmlns:xs="{cm.XS}" {XSI}><t:i xsi:type="{xt}">1</t:i>'
                   f'<t:d xsi:type="{xt}">2024-01-01</t:d></t:r>')
            jobs.append(((TYPED_XSD,), xml.encode("utf-8"), f"child with xsi:type={xt!r} ({ver})", True, ver))
    for n, m in ALT_ATTRS:
        at = (f' n="{n}"' if n is not None else "") + (f' m="{m}"' if m is not None else "")
        jobs.append(((ALT_XSD,), f"<r><e{at}>1</e><e n='6' m='5'>1</e></r>".encode("utf-8"),
                     f"type alternative tests on n={n!r} m={m!r}", True, "1.1"))
    # (v) odd but legal (or not even well-formed) byte streams: encodings, BOMs, XML 1.1, unbound prefixes, CDATA,
    # processing instructions, internal DTD subsets without entities, very many attributes / very long names
    body = '<t:r xmlns:t="urn:T"><t:i>5</t:i></t:r>'
    raw = [
        ("utf-16 with BOM", ('<?xml version="1.0" encoding="UTF-16"?>' + body).encode("utf-16"), True),
        ("utf-16 declared, utf-8 bytes", ('<?xml version="1.0" encoding="UTF-16"?>' + body).encode("utf-8"), False),
        ("latin-1 declared", ('<?xml version="1.0" encoding="ISO-8859-1"?><t:r xmlns:t="urn:T"><t:q>\xe9:x</t:q></t:r>')
         .encode("latin-1"), True),
        ("utf-8 BOM", b"\xef\xbb\xbf" + body.encode(), True),
        ("invalid utf-8", b'<t:r xmlns:t="urn:T"><t:i>\xff\xfe</t:i></t:r>', False),
        ("xml 1.1 declaration", ('<?xml version="1.1"?>' + body).encode(), True),
        ("unbound prefix", b"<t:r><t:i>5</t:i></t:r>", False),
        ("CDATA value", b'<t:r xmlns:t="urn:T"><t:i><![CDATA[5]]></t:i></t:r>', True),
        ("PIs and comments everywhere", b'<?p a?><!-- c --><t:r xmlns:t="urn:T"><?p b?><t:i>5<!-- c --></t:i><?p c?></t:r><?p d?>', True),
        ("internal subset without entities", b'<!DOCTYPE r [<!ATTLIST r a CDATA #IMPLIED>]><t:r xmlns:t="urn:T"><t:i>5</t:i></t:r>', True),
        ("3000 attributes", ('<t:r xmlns:t="urn:T" xmlns:z="urn:Z" ' + " ".join(f'z:a{i}="{i}"' for i in range(3000))
                             + "><t:i>5</t:i></t:r>").encode(), True),
        ("very long name", ('<t:r xmlns:t="urn:T"><t:' + "n" * 70000 + "/></t:r>").encode(), True),
        ("empty document", b"", False), ("only white space", b"  \n ", False), ("only a comment", b"<!-- x -->", False),
        ("two roots", b'<t:r xmlns:t="urn:T"/><t:r xmlns:t="urn:T"/>', False),
        ("NUL character reference", b'<t:r xmlns:t="urn:T"><t:i>&#0;</t:i></t:r>', False),
        ("control character reference", b'<t:r xmlns:t="urn:T"><t:i>&#1;</t:i></t:r>', False),
        ("surrogate reference", b'<t:r xmlns:t="urn:T"><t:i>&#xD800;</t:i></t:r>', False),
        ("undefined entity", b'<t:r xmlns:t="urn:T"><t:i>&nope;</t:i></t:r>', False),
    ]
    for about, data, wf in raw:
        for ver in ("1.0", "1.1"):
            jobs.append(((TYPED_XSD,), data, f"raw bytes: {about} ({ver})", wf, ver))
    for bad in ctx.pmap(outcome_case, jobs):
        total += 6
        for about, name, what in bad:
            ctx.report({"driver": "outcome", "about": about, "entry": name, "observed": what},
                       f"{about} [{name}]: {what}", finding=known(name, what))
    ctx.sample({"limits_case": jobs and {"shape": runs[0].json_records()[5]["shape"],
                                         "outcome": runs[0].json_records()[5]["outcome"]}})
    ctx.sample({"outcome_case": jobs[0][2]})
    ctx.impl_replays = ctx.evaluations = ctx.nontrivial = total
    ctx.rule = ("(i) every document shape of <= 5/6 elements x 10 limit settings x {full, lazy} x {XMLResource, "
                "validation} from TLC + default limits at 999/1000/1001; (ii) every (3rd) truncation point and "
                "seeded garbling of pool documents; (iii) 27 hostile values x stray root attributes; (iv) ill-typed "
                "identity-field values, unknown xsi:type on declared children (1.0 and 1.1), XSD 1.1 type alternatives "
                "whose tests fail dynamically; (v) 20 odd byte streams (encodings, BOMs, XML 1.1, unbound prefixes, CDATA, PIs, "
                "internal subsets, 3000 attributes, 70 000-character names, illegal character references); each x 6 "
                "entry points / modes")
    ctx.assumptions += ["library hierarchy = XMLSchemaException and subclasses (incl. XMLResourceError)",
                        "remote schema locations are never fetched (no network): hints pointing to remote "
                        "locations fail inside the library"]


def replay(ctx: Ctx, case):
    ctx.report(case, case["observed"], finding=known("", case["observed"]))
    ctx.states = ctx.transitions = 1
