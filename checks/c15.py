"""C15 - schema build accepts a content model exactly when it is deterministic (UPA) and
consistent (EDC).

Spec: spec/ContentModel.tla (DetSpec).  A: TLC explores every reachable configuration set of every
model and reports competing particles; the static position-automaton formulation (occurrence
ranges unrolled) must agree with the reachability formulation on every model (cross-checked per
model from the emitted records).  B: every model is rendered and built with XMLSchema10 and
XMLSchema11 in strict mode: built <=> no UPA conflict and EDC; a refusal must be a model error.
"""
from __future__ import annotations

import gzip
import json

from harness import cm
from harness.core import Ctx, VERIF
from checks.c01 import classify

WITNESS_FILE = VERIF / "findings" / "C15_witnesses.json.gz"


def det_universe(ctx: Ctx, ver, family, syms, tag, mc_models=None, workers=8):
    consts = {"Ver": f'"{ver}"', "MaxLen": 0, "Syms": "{" + ", ".join(f'"{s}"' for s in syms) + "}"}
    body = ("{\n" + ",\n".join(cm.to_tla(m) for m in mc_models) + "}") if mc_models is not None \
        else f'Family("{family}")'
    files = {"MC_CM.tla": "---- MODULE MC_CM ----\nEXTENDS ContentModel\nMCModels == " + body + "\n====\n"}
    cfg = (VERIF / "spec" / "ContentModel_det.cfg").read_text() + "\nCONSTANT ModelSet <- MCModels\n"
    d = ctx.tlc("MC_CM", cfg_text=cfg, constants=consts, files=files, tag=f"det-{tag}", workers=workers)
    recs = d.json_records()
    cls = classify(recs)
    for r in recs:
        if r["init"]:
            cls[cm.mkey(r["m"])]["edc"] = r["edc"]
    return cls


def judge(job):
    m, info, vers = job
    import xmlschema
    out = []
    xsd = cm.model_xsd(m)
    for ver in vers:
        schema, err = cm.build(ver, xsd)
        want_ok = (not info["upa"]) and info["edc"]
        if ver == "1.0" and m[0] == "a" and any(k[3] > 1 for k in m[1]):
            continue     # 1.0 forbids maxOccurs > 1 inside xs:all: refused for another reason
        if schema is None:
            if not isinstance(err, xmlschema.XMLSchemaModelError) and want_ok:
                out.append((ver, "refused", f"refused with {type(err).__name__}: {str(err)[:160]}"))
            elif want_ok:
                out.append((ver, "refused", f"deterministic, consistent model refused: {str(err)[:160]}"))
            elif not isinstance(err, (xmlschema.XMLSchemaModelError, xmlschema.XMLSchemaParseError)):
                out.append((ver, "wrongerror", f"refused with {type(err).__name__}"))
        elif not want_ok:
            why = "violates UPA" if info["upa"] else "violates EDC"
            out.append((ver, "accepted", f"model that {why} accepted"))
    return out


def load_witnesses():
    if not WITNESS_FILE.exists():
        return {}
    with gzip.open(WITNESS_FILE, "rt") as f:
        return json.load(f)


def plans(tier):
    ab, var = ["a", "b"], ["a", "b", "m", "o"]
    p = [("depth1", "1.0", "Depth1", ab, ["1.0", "1.1"]),
         ("depth2q", "1.0", "Depth2Q", ab, ["1.0", "1.1"]),
         ("typed", "1.0", "Typed", ab, ["1.0", "1.1"]),
         ("allq", "1.0", "AllQ", ["a", "b", "c"], ["1.0", "1.1"]),
         ("leafvar10", "1.0", "LeafVar", var, ["1.0"]),
         ("leafvar11", "1.1", "LeafVar", var, ["1.1"]),
         ("leafvarf10", "1.0", "LeafVarF", var + ["f"], ["1.0"]),
         ("leafvarf11", "1.1", "LeafVarF", var + ["f"], ["1.1"]),
         ("mid3", "1.0", "Mid3", ab, ["1.0", "1.1"]),
         ("multihead11", "1.1", "MultiHead", ["b", "p", "q", "r"], ["1.1"]),
         ("wildpair11", "1.1", "WildPair", ["a", "o", "u", "z"], ["1.1"])]
    if tier == "thorough":
        p.append(("depth2", "1.0", "Depth2", ab, ["1.0", "1.1"]))
    return p


def run(ctx: Ctx, collect=None):
    witnesses = load_witnesses()
    todo = plans(ctx.tier)
    spec_side = ctx.parallel([(lambda p=p: det_universe(ctx, p[1], p[2], p[3], p[0])) for p in todo],
                             width=3)
    total = 0
    per_scope = {}
    for (scope, ver, fam, syms, vers), cls in zip(todo, spec_side):
        jobs = [(json.loads(k), info, vers) for k, info in sorted(cls.items())]
        results = ctx.pmap(judge, jobs)
        st = {"models": len(jobs), "upa_violating": sum(1 for j in jobs if j[1]["upa"]),
              "edc_violating": sum(1 for j in jobs if not j[1]["edc"]), "disagreements": 0}
        for (m, info, _), bad in zip(jobs, results):
            total += len(vers)
            for ver, direction, detail in bad:
                st["disagreements"] += 1
                key = f"{ver}|{direction}|{cm.model_str(m)}"
                if collect is not None:
                    collect.setdefault(scope, []).append(key)
                finding = None
                if key in witnesses.get(scope, ()):
                    finding = {"accepted": "F-C15-accept", "refused": "F-C15-refuse"}.get(direction)
                ctx.report({"scope": scope, "ver": ver, "model": m, "model_str": cm.model_str(m),
                            "spec": info, "observed": detail, "xsd": cm.model_xsd(m)},
                           f"{ver}: {cm.model_str(m)}: {detail}", finding=finding)
        per_scope[scope] = st
        for m, info, _ in jobs[:: max(1, len(jobs) // 2)][:2]:
            ctx.sample({"scope": scope, "model": cm.model_str(m), "spec": info}, 12)
    ctx.impl_replays = ctx.evaluations = ctx.nontrivial = total
    ctx.exhaustive = True
    ctx.extra["per_scope"] = per_scope
    ctx.rule = ("every content model of the families of spec/ContentModel.tla (Depth1, Depth2Q, "
                "Typed, AllQ, LeafVar, LeafVarF, Mid3, MultiHead (1.1: two substitution heads sharing a member), WildPair (1.1: namespace lists and notNamespace negations side by side, a third namespace no constraint names); thorough adds Depth2) x schema class; a case is one strict "
                "build judged against the spec's UPA/EDC verdict")
    ctx.assumptions += [
        "UPA is decided on the configuration-set machine (all reachable residual sets) and "
        "cross-checked against the unrolled position automaton for every model without xs:all",
        "known findings are matched by complete witness lists (findings/C15_witnesses.json.gz)"]


def replay(ctx: Ctx, case):
    m = case["model"]
    syms = ["a", "b", "c", "m", "o", "f", "p", "q", "r", "u", "z"]
    cls = det_universe(ctx, case["ver"], None, syms, "replay", [m])
    for ver, direction, detail in judge((m, cls[cm.mkey(m)], [case["ver"]])):
        ctx.report(dict(case, observed=detail), f"{ver}: {cm.model_str(m)}: {detail}")
