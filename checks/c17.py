"""C17 - names survive prefix mapping: decoded names resolve back to the same QNames.

Spec: spec/Namespaces.tla (document generator + the prefix mapper with lazily unwound context
stack).  A: MapIsScope / ReverseSound / ReverseTotal / StackShape on every reachable state; the
named deviation Variant="stale" (reverse map not repaired on redeclaration) must violate
ReverseSound (self-test: the invariant is not vacuous).  B: every document TLC enumerates is
rendered and decoded (JsonML and default converter x stacked / collapsed / root-only); each key,
resolved with the declarations the data itself reports on the node and its ancestors, must denote
the node's expanded name; encoding the data must restore the expanded names.  C: the ns.setctx
events recorded during those decodes are validated in batch against Trace_Namespaces.tla.
"""
from __future__ import annotations

import json
import warnings
import xml.etree.ElementTree as ET

from harness.core import Ctx, MachineryError, VERIF

URI = {"A": "urn:A", "B": "urn:B", "": ""}
_schema = None


def xsd(tns):
    t = f'targetNamespace="{tns}" xmlns:t="{tns}"' if tns else ""
    pfx = "t:" if tns else ""
    return (f'<xs:schema xmlns:xs="http://www.w3.org/2001/XMLSchema" {t} elementFormDefault="qualified">'
            f'<xs:element name="e" type="{pfx}T"/><xs:attribute name="at" type="xs:string"/>'
            f'<xs:complexType name="T"><xs:sequence><xs:any minOccurs="0" maxOccurs="unbounded" '
            f'processContents="strict"/></xs:sequence><xs:attribute name="at" type="xs:string"/>'
            f'<xs:anyAttribute processContents="strict"/></xs:complexType></xs:schema>')


def schema():
    global _schema
    if _schema is None:
        import xmlschema
        with warnings.catch_warnings():
            warnings.simplefilter("ignore")
            _schema = xmlschema.XMLSchema([xsd("urn:A"), xsd("urn:B"), xsd("")])
    return _schema


# ----------------------------------------------------------------------------- rendering
def render(doc, pick):
    """-> (xml text, list of (expanded tag, {expanded attr names}) in document order)."""
    out, names = [], []
    scopes, stack = [], []

    def bound(scope, u, attr=False):
        return sorted(p for p, v in scope.items() if v == u and not (attr and p == ""))
    for el in doc:
        lvl = el["lvl"]
        while len(stack) > lvl:
            out.append(f"</{stack.pop()}>")
            scopes.pop()
        scope = dict(scopes[-1]) if scopes else {}
        decl = ""
        for p, u in sorted(map(tuple, el["decls"])):
            decl += (f' xmlns:{p}="{URI[u]}"' if p else f' xmlns="{URI[u]}"')
            if u == "":
                scope.pop(p, None)
            else:
                scope[p] = u
        if el["ns"] == "":
            tag = "e"
        else:
            ps = bound(scope, el["ns"])
            p = ps[pick % len(ps)]
            tag = f"{p}:e" if p else "e"
        attrs = set()
        at = ""
        if el["ans"] == "":
            at = ' at="1"'
            attrs.add("at")
        elif el["ans"] != "-":
            ps = bound(scope, el["ans"], attr=True)
            at = f' {ps[pick % len(ps)]}:at="1"'
            attrs.add("{%s}at" % URI[el["ans"]])
        out.append(f"<{tag}{decl}{at}>")
        stack.append(tag)
        scopes.append(scope)
        names.append(("{%s}e" % URI[el["ns"]] if el["ns"] else "e", attrs, lvl))
    while stack:
        out.append(f"</{stack.pop()}>")
    return "".join(out), names


# ----------------------------------------------------------------------------- resolution
def resolve(key, chain, attr=False):
    """Resolve a data key with the declarations reported on the node and its ancestors."""
    if key.startswith("{"):
        return key
    if ":" in key:
        p, local = key.split(":", 1)
        for decls in reversed(chain):
            if p in decls:
                return "{%s}%s" % (decls[p], local) if decls[p] else None
        return None            # undeclared prefix
    if attr:
        return key
    for decls in reversed(chain):
        if "" in decls:
            return "{%s}%s" % (decls[""], key) if decls[""] else key
    return key


def walk_jsonml(node, chain, out, lvl=0):
    tag = node[0]
    rest = node[1:]
    attrs = {}
    if rest and isinstance(rest[0], dict):
        attrs, rest = rest[0], rest[1:]
    decls = {}
    plain = {}
    for k, v in attrs.items():
        if k == "xmlns":
            decls[""] = v
        elif k.startswith("xmlns:"):
            decls[k[6:]] = v
        else:
            plain[k] = v
    ch = chain + [decls]
    out.append((resolve(tag, ch), {resolve(k, ch, attr=True) for k in plain}, lvl))
    for c in rest:
        if isinstance(c, list):
            walk_jsonml(c, ch, out, lvl + 1)


def walk_default(tag_key, value, chain, out, lvl):
    """Default converter: dict with '@xmlns[:p]', '@attr', '$', child keys -> value | list."""
    decls, plain, kids = {}, {}, []
    if isinstance(value, dict):
        for k, v in value.items():
            if k == "@xmlns":
                decls[""] = v
            elif k.startswith("@xmlns:"):
                decls[k[7:]] = v
            elif k.startswith("@"):
                plain[k[1:]] = v
            elif k != "$":
                kids.append((k, v))
    ch = chain + [decls]
    out.append((resolve(tag_key, ch), {resolve(k, ch, attr=True) for k in plain}, lvl))
    for k, v in kids:
        for item in (v if isinstance(v, list) else [v]):
            walk_default(k, item, ch, out, lvl + 1)


def known_decode_deviation(doc, mode, want, same):
    """Finding id if the decoded names are exactly the expected ones up to the known deviations
    F-C17-b / F-C17-c applied at some of the ELIGIBLE places (and nowhere else), else None.

    F-C17-b: a qualified attribute whose namespace is also the default namespace the mapper has
    in scope may be reported unprefixed (an unprefixed attribute is in no namespace).
    F-C17-c: collapsed / root-only keep only the root's default namespace: an element in no
    namespace below a root that declares a default namespace is reported unprefixed and so
    resolves into the root's default namespace.
    `same(pred)` compares a predicted name list with what was observed.
    """
    import itertools
    scopes = []
    root_default = dict(map(tuple, doc[0]["decls"])).get("")
    eligible = []          # (index, kind)
    for i, (el, (name, attrs, lvl)) in enumerate(zip(doc, want)):
        while len(scopes) > lvl:
            scopes.pop()
        dflt = scopes[-1] if scopes else None
        for p, u in map(tuple, el["decls"]):
            if p == "":
                dflt = u or None
        scopes.append(dflt)
        eff_default = dflt if mode == "stacked" else (root_default or None)
        if el["ans"] not in ("-", "") and eff_default == el["ans"]:
            eligible.append((i, "b"))
        if mode != "stacked" and el["ns"] == "" and root_default:
            eligible.append((i, "c"))
    for n in range(1, len(eligible) + 1):
        for sub in itertools.combinations(eligible, n):
            pred = [list(w) for w in want]
            for i, kind in sub:
                if kind == "b":
                    pred[i][1] = {"at"}
                else:
                    pred[i][0] = "{%s}e" % URI[root_default]
            if same([tuple(x) for x in pred]):
                return "F-C17-c" if any(k == "c" for _, k in sub) else "F-C17-b"
    return None


WITNESS_FILE = VERIF / "findings" / "C17_witnesses.json.gz"
_witnesses = None


def encode_witness(mode, conv, xml):
    """F-C17-e: failures of the ENCODE phase are matched by the complete list of failing
    (mode, converter, document) triples of the pinned tree inside the enumerated families."""
    global _witnesses
    if _witnesses is None:
        import gzip
        _witnesses = set()
        if WITNESS_FILE.exists():
            with gzip.open(WITNESS_FILE, "rt") as f:
                for v in json.load(f).values():
                    _witnesses.update(v)
    return "F-C17-e" if f"{mode}|{conv}|{xml}" in _witnesses else None


def known_encode_deviation_unused(doc, mode):
    """Matchers of the encode-side findings (stacked mode only).

    F-C17-e: the encoder bootstraps its map from the data's declarations at depth <= 1, so a
    declaration on a child of the root that differs from the root's leaks into the root scope.
    F-C17-f: an un-set default namespace (xmlns="") in the data is not honoured when encoding.
    """
    if mode != "stacked":
        return None
    root = dict(map(tuple, doc[0]["decls"]))
    for el in doc:
        if el["lvl"] == 1 and any(root.get(p) != u for p, u in map(tuple, el["decls"])):
            return "F-C17-e"
    if any(u == "" for el in doc for p, u in map(tuple, el["decls"])):
        return "F-C17-f"
    return None


def tree_shape(names):
    """Multiset-of-children shape (order among different keys is not kept by the default converter)."""
    def build(i):
        name, attrs, lvl = names[i]
        kids = []
        j = i + 1
        while j < len(names) and names[j][2] > lvl:
            if names[j][2] == lvl + 1:
                kids.append(build(j))
            j += 1
        return (str(name), tuple(sorted(map(str, attrs))), tuple(sorted(kids)))
    return build(0)


def judge(job):
    doc, idx, modes, want_trace = job
    import xmlschema
    from xmlschema import _verif_trace as vt
    s = schema()
    out, traces = [], []
    xml, names = render(doc, idx)
    want = [(n, a, lv) for n, a, lv in names]
    for mode in modes:
        for conv_name in ("jsonml", "default"):
            conv = xmlschema.JsonMLConverter if conv_name == "jsonml" else None
            kwargs = {"preserve_root": True} if conv_name == "default" else {}
            ev = vt.start() if (want_trace and mode == "stacked" and conv_name == "jsonml") else None
            try:
                data = s.decode(xml, converter=conv, xmlns_processing=mode, **kwargs)
            except Exception as e:      # noqa: BLE001
                out.append((mode, conv_name, f"decode raised {type(e).__name__}: {e}"[:200], xml, None))
                continue
            finally:
                if ev is not None:
                    vt.stop()
            if ev is not None:
                traces.append(project_trace(doc, ev))
            got = []
            try:
                if conv_name == "jsonml":
                    walk_jsonml(data, [], got)
                else:
                    (k, v), = data.items()
                    walk_default(k, v, [], got, 0)
            except Exception as e:      # noqa: BLE001
                out.append((mode, conv_name, f"data not walkable: {type(e).__name__}: {e}"[:200], xml, None))
                continue
            if conv_name == "jsonml":
                ok = [(g[0], g[1]) for g in got] == [(w[0], w[1]) for w in want]
            else:
                ok = len(got) == len(want) and tree_shape(got) == tree_shape(want)
            if not ok:
                if conv_name == "jsonml":
                    def same(pred):
                        return [(g[0], g[1]) for g in got] == [(w[0], w[1]) for w in pred]
                else:
                    def same(pred):
                        return len(got) == len(pred) and tree_shape(got) == tree_shape(pred)
                finding = known_decode_deviation(doc, mode, want, same)
                out.append((mode, conv_name,
                            "decoded names do not resolve to the nodes' expanded names: "
                            f"resolved {[(g[0], sorted(map(str, g[1]))) for g in got]} "
                            f"expected {[(w[0], sorted(w[1])) for w in want]}", xml, finding))
                continue
            # encoding restores the expanded names
            try:
                elem = s.maps.elements[names[0][0]].encode(data, converter=conv,
                                                           xmlns_processing=mode, **kwargs)
            except Exception as e:      # noqa: BLE001
                out.append((mode, conv_name, f"encode raised {type(e).__name__}: {e}"[:200], xml,
                            encode_witness(mode, conv_name, xml), "encode"))
                continue
            back = []

            def visit(e, lv):
                back.append((e.tag, set(k for k in e.attrib), lv))
                for c in e:
                    visit(c, lv + 1)
            visit(elem, 0)
            if (tree_shape(back) != tree_shape(want)) if conv_name == "default" else \
                    ([(b[0], b[1]) for b in back] != [(w[0], w[1]) for w in want]):
                out.append((mode, conv_name, "encode(decode(x)) does not restore the expanded names: "
                            f"{[(b[0], sorted(b[1])) for b in back]}", xml,
                            encode_witness(mode, conv_name, xml), "encode"))
    return out, traces


# ----------------------------------------------------------------------------- traces (C)
def project_trace(doc, events):
    """ns.setctx events of one decode -> trace record for Trace_Namespaces.tla."""
    inv = {"urn:A": "A", "urn:B": "B"}
    mapper = events[0]["mapper"] if events else None
    order = {}
    evs = []
    for e in events:
        if e["mapper"] != mapper:
            continue
        node = order.setdefault(e["obj"], len(order) + 1)
        ns = e["namespaces"]

        def u(x):
            return inv.get(ns.get(x, "-"), "-") if ns.get(x, "-") else "-"
        rev = [[inv[k], (v[:-1] if v else "d")] for k, v in e["reverse"].items() if k in inv]
        evs.append({"node": node, "lvl": e["level"], "map": {"p": u("p"), "q": u("q"), "d": u("")},
                    "rev": rev, "depth": e["depth"]})
    d = [{"lvl": el["lvl"], "ns": el["ns"], "ans": el["ans"],
          "decls": [[(p or "d"), x] for p, x in sorted(map(tuple, el["decls"]))]} for el in doc]
    return {"doc": d, "ev": evs}


def validate_traces(ctx: Ctx, traces, corrupt=None):
    """Batch-validate; -> list of (trace index, event index, reason)."""
    import copy
    if corrupt is not None:
        traces = copy.deepcopy(traces)
        corrupt(traces)
    path = ctx.work / f"ns_traces_{len(ctx.tlc_runs)}.json"
    path.write_text(json.dumps(traces))
    cfg = ("SPECIFICATION TSpec\nCONSTRAINT Mark\nPOSTCONDITION Post\nCHECK_DEADLOCK FALSE\n"
           'CONSTANTS\n Variant = "sound"\n MaxDepth = 9\n MaxElems = 99\n MaxDecls = 3\n Family = "all"\n')
    r = ctx.tlc("Trace_Namespaces", cfg_text=cfg, workers=1, env={"TRACE_FILE": str(path)},
                tag="trace", count=True)
    import re
    flat = re.sub(r"\s+", " ", r.out)
    m = re.search(r'<< ?"rejected", \{([^}]*)\} ?>>', flat)
    if not m:
        raise MachineryError("trace validation produced no verdict")
    rejected = [int(x) for x in m.group(1).replace(" ", "").split(",") if x]
    reasons = {}
    for t, l, why in re.findall(r'<< ?(\d+), (\d+), "([^"]+)" ?>>', flat):
        reasons.setdefault(int(t), (int(l), why))
    return [(t, *reasons.get(t, (0, "no behaviour of the specification explains the recorded calls")))
            for t in rejected]


def run(ctx: Ctx, collect=None):
    thorough = ctx.tier == "thorough"
    families = [("all", 3, 1 if thorough else 6), ("ponly", 5 if thorough else 4, 1)]
    base = {"Variant": '"sound"', "MaxDepth": 3, "MaxDecls": 1}
    # self-test of the invariant: the named deviation must be caught at design level
    st = ctx.tlc("Namespaces", "Namespaces.cfg", expect_violation=True, count=False, tag="A-stale",
                 constants=dict(base, Variant='"stale"', MaxElems=3, Family='"all"'))
    if "ReverseSound" not in st.invariant_violated:
        raise MachineryError("vacuity: the stale-reverse variant does not violate ReverseSound")
    runs = ctx.parallel([(lambda f=f: ctx.tlc("Namespaces", "Namespaces.cfg", tag=f"A-{f[0]}", timeout=3000,
                                              workers=8, constants=dict(base, MaxElems=f[1], Family=f'"{f[0]}"')))
                         for f in families], width=2)
    modes = ["stacked", "collapsed", "root-only"]
    jobs, scope_of = [], []
    ndocs = {}
    for (fam, _, stride), r in zip(families, runs):
        docs = list({json.dumps(x["doc"], sort_keys=True): x["doc"] for x in r.json_records()}.values())
        ndocs[fam] = len(docs)
        for i, d in enumerate(docs):
            if i % stride == 0:
                jobs.append((d, i, modes, i % (20 if thorough else 4) == 0))
                scope_of.append(fam)
    res = ctx.pmap(judge, jobs)
    traces, owners = [], []
    n = 0
    for (d, i, _, _), fam, (bad, trs) in zip(jobs, scope_of, res):
        n += len(modes) * 2
        for t in trs:
            traces.append(t)
            owners.append(d)
        for item in bad:
            mode, conv, what, xml, finding = item[:5]
            if collect is not None and len(item) > 5 and item[5] == "encode":
                collect.setdefault(fam, []).append(f"{mode}|{conv}|{xml}")
            ctx.report({"doc": d, "pick": i, "mode": mode, "converter": conv, "xml": xml, "observed": what},
                       f"{mode}/{conv}: {what[:160]}  [{xml}]", finding=finding)
    ctx.impl_replays = n
    # C: code -> spec
    if traces:
        for t, l, why in validate_traces(ctx, traces):
            ctx.report({"doc": owners[t - 1], "trace": traces[t - 1], "event": l, "observed": why,
                        "driver": "trace"},
                       f"ns.setctx trace rejected at event {l}: {why}")
        ctx.impl_traces = len(traces)
        # binding self-test: corrupt one logged field -> the batch must reject that trace

        def corrupt(ts):
            for t in ts:
                if t["ev"]:
                    e = t["ev"][len(t["ev"]) // 2]
                    e["map"]["p"] = "B" if e["map"]["p"] == "A" else "A"
                    return
        rej = validate_traces(ctx, traces[:200], corrupt)
        if not rej:
            raise MachineryError("binding self-test: a corrupted ns.setctx trace was accepted")
    for d, i, _, _ in jobs[:: max(1, len(jobs) // 3)][:3]:
        ctx.sample({"document": render(d, i)[0]})
    ctx.evaluations = n
    ctx.nontrivial = len(jobs)
    ctx.exhaustive = thorough
    ctx.rule = ("family 'all': documents of <= 3 elements, depth <= 3, each element declaring at most one of "
                "{p, q, default} -> {A, B, unset}, one optional attribute (quick: every 6th); family 'ponly': "
                "documents of <= 4 (thorough 5) elements where only the prefix p is (re)declared; names "
                "writable under the in-scope map (TLC, spec/Namespaces.tla); each document x {stacked, "
                "collapsed, root-only} x {JsonML, default converter}")
    ctx.assumptions += ["resolution of a key uses the nearest declaration the DATA reports on the node "
                        "or an ancestor; an extended {uri}local key denotes itself",
                        "the default converter does not keep the order among differently named "
                        "children: structure is compared as nested multisets",
                        "encode-phase failures of the pinned tree are matched by a complete witness list "
                        "(findings/C17_witnesses.json.gz); decode-phase deviations by predicted output"]
    ctx.extra["documents_enumerated"] = ndocs


def replay(ctx: Ctx, case):
    if case.get("driver") == "trace":
        for t, l, why in validate_traces(ctx, [case["trace"]]):
            ctx.report(case, f"ns.setctx trace rejected at event {l}: {why}")
        return
    bad, _ = judge((case["doc"], case["pick"], [case["mode"]], False))
    for item in bad:
        mode, conv, what, xml, finding = item[:5]
        if conv == case["converter"]:
            ctx.report(dict(case, observed=what), what[:200], finding=finding)
    ctx.states = ctx.transitions = 1
