"""C12 - resource access control confines every fetch to the allowed class of locations.

Spec: spec/Access.tla (allow mode x location class -> Permitted; a load = fetch of the main source,
then of the referenced location; invariants: only permitted locations are opened, a blocked location
contributes nothing, 'none' opens nothing).  B + C: every configuration TLC enumerates (allow x main
class x mechanism x target class x spelling) is set up as a real directory tree (sandbox directory,
a sibling directory sharing its name as prefix, another local directory, a remote-looking URL served
by a stub opener); the driver records every file open / URL request through interpreter audit events
and the stub; the recorded fetches must be the spec's `opened` set and the target's declarations
must be present exactly when the spec says they are loaded.
"""
from __future__ import annotations

import io
import os
import sys
import tempfile
import urllib.parse
import urllib.request
import urllib.response
import warnings

from harness import cm
from harness.core import Ctx, MachineryError

REMOTE = "http://verif.test"
_events: list = []
_installed = False


def install_audit():
    global _installed
    if _installed:
        return
    _installed = True

    def hook(event, args):
        if event == "open" and isinstance(args[0], str):
            _events.append(("open", args[0]))
    sys.addaudithook(hook)

    class Stub(urllib.request.HTTPHandler):      # replaces the default handler: no socket is ever opened
        def http_open(self, req):
            url = req.full_url
            _events.append(("remote", url))
            body = REMOTE_FILES.get(url.lower())
            if body is None:
                raise urllib.error.URLError("stub: no such remote document " + url)
            resp = urllib.response.addinfourl(io.BytesIO(body if isinstance(body, bytes) else body.encode()), {"Content-Type": "text/xml"}, url)
            resp.code, resp.msg = 200, "OK"
            return resp

    class StubS(urllib.request.HTTPSHandler):
        def https_open(self, req):
            raise urllib.error.URLError("stub: https is not served")
    urllib.request.install_opener(urllib.request.build_opener(Stub, StubS))


REMOTE_FILES: dict = {}


HINT_XML = ('<t:own xmlns:t="urn:T" xmlns:xsi="http://www.w3.org/2001/XMLSchema-instance">'
            '<t:kid xsi:schemaLocation="urn:B {loc}">k</t:kid><b:tgt xmlns:b="urn:B">v</b:tgt></t:own>')


def target_xsd(mech, ver):
    if mech in ("import", "hint", "locations"):
        return (f'<xs:schema xmlns:xs="{cm.XS}" targetNamespace="urn:B"><xs:element name="tgt" type="xs:string"/>'
                f'</xs:schema>')
    return (f'<xs:schema xmlns:xs="{cm.XS}" targetNamespace="urn:T" xmlns:t="urn:T">'
            f'<xs:element name="tgt" type="xs:string"/>'
            f'<xs:complexType name="R"><xs:sequence><xs:element name="x" type="xs:string"/></xs:sequence>'
            f'</xs:complexType></xs:schema>')


def main_xsd(mech, loc):
    loc = loc.replace("&", "&amp;")
    if mech in ("hint", "locations"):   # no reference in the schema: the instance / the locations argument brings it
        return (f'<xs:schema xmlns:xs="{cm.XS}" targetNamespace="urn:T" xmlns:t="urn:T">'
                f'<xs:element name="own"><xs:complexType><xs:sequence><xs:element name="kid" type="xs:string" '
                f'form="qualified"/><xs:any namespace="##other" '
                f'processContents="lax" minOccurs="0"/></xs:sequence></xs:complexType></xs:element></xs:schema>')
    if mech == "mapper":        # the included name exists nowhere: only the mapper knows where it is
        ref = '<xs:include schemaLocation="virtual.xsd"/>'
    elif mech == "include":
        ref = f'<xs:include schemaLocation="{loc}"/>'
    elif mech == "import":
        ref = f'<xs:import namespace="urn:B" schemaLocation="{loc}"/>'
    elif mech == "redefine":
        ref = (f'<xs:redefine schemaLocation="{loc}"><xs:complexType name="R"><xs:complexContent>'
               f'<xs:extension base="t:R"><xs:sequence><xs:element name="y" type="xs:string"/></xs:sequence>'
               f'</xs:extension></xs:complexContent></xs:complexType></xs:redefine>')
    else:
        ref = f'<xs:override schemaLocation="{loc}"><xs:element name="tgt" type="xs:int"/></xs:override>'
    return (f'<xs:schema xmlns:xs="{cm.XS}" targetNamespace="urn:T" xmlns:t="urn:T">{ref}'
            f'<xs:element name="own" type="xs:string"/></xs:schema>')


def location(cls, spelling, base):
    d = {"inside": "sand", "sibling": "sand_evil", "outside": "other"}.get(cls)
    if cls == "remote":
        return (REMOTE + "/inc.xsd") if spelling != "encoded" else (REMOTE + "/in%63.xsd")
    full = os.path.join(base, d, "inc.xsd")
    rel = "inc.xsd" if cls == "inside" else f"../{d}/inc.xsd"
    if spelling.startswith("climb"):        # through the sandbox directory and out of it (or back into it)
        climb = os.path.join(base, "sand", "sub", "..", "inc.xsd") if cls == "inside" \
            else os.path.join(base, "sand", "..", d, "inc.xsd")
        if spelling == "climbabs":
            return climb
        if spelling == "climburl":
            return "file://" + climb
        return "file://" + climb.replace("..", "%2e%2e")
    if spelling == "relative":
        return rel
    if spelling == "dotted":
        return "./sub/../" + rel
    if spelling == "absolute":
        return full
    if spelling == "fileurl":
        return "file://" + full
    return rel.replace("inc", "in%63").replace("_", "%5F")


def classify(path, base):
    rp = os.path.realpath(path)
    for cls, d in (("inside", "sand"), ("sibling", "sand_evil"), ("outside", "other")):
        if rp.startswith(os.path.join(base, d) + os.sep):
            return cls
    return None


def one_load(rec, ver, allow, main, mech, loc, src, base, explicit):
    """One schema load under observation. -> description of the disagreement or None."""
    import xmlschema
    kwargs = {"allow": allow}
    if main == "textremote":
        kwargs["base_url"] = REMOTE + "/dir/"
    elif allow == "sandbox" and explicit:
        kwargs["base_url"] = os.path.join(base, "sand")
    if mech == "mapper":
        kwargs["uri_mapper"] = lambda uri: loc if uri.endswith("virtual.xsd") else uri
    if mech == "locations":
        kwargs["locations"] = {"urn:B": loc}
    del _events[:]
    cls = cm.schema_class(ver)
    schema = err = None
    try:
        with warnings.catch_warnings():
            warnings.simplefilter("ignore")
            schema = cls(src, **kwargs)
            if mech == "locations":     # the namespace is needed when validation meets b:tgt under the wildcard
                xml = HINT_XML.replace(' xsi:schemaLocation="urn:B {loc}"', "")
                if main == "inside":
                    doc = os.path.join(base, "sand", "doc.xml")
                    with open(doc, "w") as f:
                        f.write(xml)
                    schema.is_valid(doc)
                else:
                    schema.is_valid(xml)
            if mech == "hint":
                xml = HINT_XML.format(loc=loc.replace("&", "&amp;"))
                if main == "inside":        # the instance lives in the sandbox directory too
                    doc = os.path.join(base, "sand", "doc.xml")
                    with open(doc, "w") as f:
                        f.write(xml)
                    schema.is_valid(doc, use_location_hints=True)
                else:
                    schema.is_valid(xml, use_location_hints=True)
    except xmlschema.XMLSchemaException as e:
        err = e
    except Exception as e:      # noqa: BLE001
        return f"foreign exception {type(e).__name__}: {e}"[:200]
    events = list(_events)
    opened = set()
    for kind, what in events:
        if kind == "open":
            c = classify(what, base)
            if c and os.path.basename(what) != "doc.xml":
                opened.add((os.path.basename(what) == "main.xsd" and "main" or "ref", c))
        else:
            opened.add(("main" if what.lower().endswith("/main.xsd") else "ref", "remote"))
    want = {tuple(x) for x in rec["opened"]}
    if opened != want:
        return (f"fetched {sorted(opened)}, the specification allows exactly {sorted(want)} "
                f"(location written as {loc!r}; outcome {type(err).__name__ if err else 'built'})")
    loaded = set(rec["loaded"])
    if "main" not in loaded:
        if schema is not None:
            return "the main source is not permitted but a schema was built"
        if not isinstance(err, xmlschema.XMLResourceError):
            return f"main source refused with {type(err).__name__}, not a resource error"
        return None
    if schema is None:
        # a blocked include/redefine may be reported as an error; a permitted one must load
        if "ref" in loaded:
            return f"permitted reference but the schema was refused: {str(err)[:160]}"
        return None
    ns = "urn:B" if mech in ("import", "hint", "locations") else "urn:T"
    has = ("{%s}tgt" % ns) in schema.maps.elements
    if has != ("ref" in loaded):
        return (f"declarations of the referenced document present={has}, spec loaded="
                f"{'ref' in loaded} (location {loc!r})")
    return None


def judge(job):
    rec, ver = job
    install_audit()
    import xmlschema
    out = []
    allow, main, ref = rec["allow"], rec["main"], rec["ref"]
    mech = ref["mech"]
    if mech == "override" and ver == "1.0":
        return out, 0
    with tempfile.TemporaryDirectory(prefix="verif_c12_") as tmp:
        base = os.path.realpath(tmp)
        for d in ("sand", "sand/sub", "sand_evil", "other"):
            os.makedirs(os.path.join(base, d))
        for d in ("sand", "sand_evil", "other"):
            with open(os.path.join(base, d, "inc.xsd"), "w") as f:
                f.write(target_xsd(mech, ver))
        REMOTE_FILES.clear()
        REMOTE_FILES[(REMOTE + "/inc.xsd").lower()] = target_xsd(mech, ver)
        if mech == "mapper" and main == "remote":
            return out, 0       # the mapper scenario is set up for a local main document only
        if main == "inside":
            sp = ref["spelling"]
            if mech == "mapper" and sp in ("relative", "dotted", "encoded"):
                sp = "absolute"     # a mapper returns complete locations
            if mech == "hint" and sp in ("relative", "dotted", "encoded"):
                sp = "fileurl"      # a hint in a document supplied as text has nothing to be relative to
            if mech == "locations" and sp in ("dotted", "encoded"):
                sp = "relative"
            if ref["class"] == "remote" and sp.startswith("climb"):
                return out, 0       # the climbing spellings are about the local file system
            loc = location(ref["class"], sp, base)
            src = os.path.join(base, "sand", "main.xsd")
            with open(src, "w") as f:
                f.write(main_xsd(mech, loc))
        elif main == "textremote":
            # the main schema as text with a remote base URL: relative references are remote
            if mech in ("hint", "mapper", "locations") or ref["spelling"].startswith("climb"):
                return out, 0
            if ref["class"] == "remote":
                loc = "inc.xsd" if ref["spelling"] in ("relative", "dotted") else location("remote", "absolute", base)
            else:
                loc = location(ref["class"], "fileurl", base)
            REMOTE_FILES[(REMOTE + "/dir/inc.xsd").lower()] = target_xsd(mech, ver)
            src = main_xsd(mech, loc)
        else:
            # a remote main document: relative references stay remote, local targets need a file URL
            if ref["class"] == "remote":
                loc = "inc.xsd" if (ref["spelling"] in ("relative", "dotted") and mech not in ("hint", "locations")) \
                    else location("remote", "absolute", base)
            else:
                loc = location(ref["class"], "fileurl", base)
            src = REMOTE + "/main.xsd"
            REMOTE_FILES[src.lower()] = main_xsd(mech, loc)
        variants = [True, False] if (allow == "sandbox" and main == "inside") else [True]
        if allow == "sandbox" and main == "remote":
            return out, 0       # a sandbox is a local directory: a remote main source is a usage error
        for explicit in variants:
            bad = one_load(rec, ver, allow, main, mech, loc, src, base, explicit)
            if bad:
                out.append((rec, ver, bad + ("" if explicit else " [sandbox implied by the main source, "
                                                               "no base_url given]")))
                break
    return out, 1


def run(ctx: Ctx):
    r = ctx.tlc("Access", "Access.cfg", tag="A")
    recs = r.json_records()
    jobs = [(rec, ver) for rec in recs for ver in ("1.0", "1.1")]
    if ctx.tier == "quick":
        jobs = [j for i, j in enumerate(jobs) if i % 2 == (ctx.seed % 2)] if False else jobs
    total = 0
    for bad, n in ctx.pmap(judge, jobs):
        total += n
        for rec, ver, what in bad:
            finding = None
            ctx.report({"ver": ver, "spec": rec, "observed": what},
                       f"{ver} allow={rec['allow']} main={rec['main']} {rec['ref']}: {what}", finding=finding)
    ctx.sample(recs[3])
    ctx.sample(recs[len(recs) // 2])
    ctx.impl_replays = ctx.impl_traces = 0
    ctx.impl_replays = total
    ctx.evaluations = ctx.nontrivial = total
    ctx.exhaustive = True
    ctx.rule = ("allow mode (5) x main source class (inside, remote) x mechanism (include, import, redefine, "
                "override, instance location hint followed during validation, include through a URI mapper, `locations` argument; also the main schema as text with a remote base URL) x target class (inside, sibling-with-shared-prefix, outside, remote) x spelling "
                "(relative, dotted, absolute, file URL, percent-encoded, absolute path / file URL / percent-encoded file URL climbing through the sandbox directory with '..') as enumerated by TLC, both classes; "
                "every fetch observed through audit events (open) and a stub opener (remote)")
    ctx.assumptions += ["a fetch that bypasses both builtins.open and urllib would not be observed",
                        "package-internal schema files are pre-loaded before a case starts and are a class "
                        "of their own", "instance location hints and URI mappers are not generated yet"]


def replay(ctx: Ctx, case):
    bad, _ = judge((case["spec"], case["ver"]))
    for rec, ver, what in bad:
        ctx.report(dict(case, observed=what), what)
    ctx.states = ctx.transitions = 1
