"""C16 - wildcard namespace constraints behave as sets of allowed names.

Spec: spec/Wildcards.tla.  A: TLC checks that the clause-level operations agree with the set
reading (ASSUME PairLaws, invariant ClauseAgreesWithSets over derivation chains).  B: every chain
TLC enumerates is replayed on the real wildcard objects (copy / union / intersection /
is_restriction / is_overlap) and, for pairs, through real schemas (extension, attribute-group
composition, restriction, UPA in a choice) observed by validating instances.
"""
from __future__ import annotations

import copy
import warnings

from harness.core import Ctx, MachineryError

URI = {"": "", "T": "urn:T", "A": "urn:A", "B": "urn:B", "F": "urn:F"}
PFX = {"T": "t", "A": "a", "B": "b", "F": "f"}
NAMES = [(ns, loc) for ns in ["", "T", "A", "B", "F"] for loc in ["x", "z"]]
HEAD = ('<xs:schema xmlns:xs="http://www.w3.org/2001/XMLSchema" targetNamespace="urn:T" '
        'xmlns:t="urn:T" xmlns:a="urn:A" xmlns:b="urn:B" elementFormDefault="qualified">\n')


HEAD_A = HEAD.replace('targetNamespace="urn:T"', 'targetNamespace="urn:A"')


def tok(t, literal_target=False, home="T"):
    if t == "":
        return "##local"
    if t == home and not literal_target:
        return "##targetNamespace"
    return URI[t]


def attr_text(x, literal_target=False, home="T"):
    """Render a written constraint (spec: Syn) as XML attributes of a schema whose target namespace is `home`:
    the SAME set of names is written relative to that namespace (##targetNamespace, ##other)."""
    sy = x["ns"]
    if sy["f"] == "any":
        s = 'namespace="##any"'
    elif sy["f"] == "other" and home == "T":
        s = 'namespace="##other"'
    elif sy["f"] == "other":                 # not(absent, T) seen from another schema (XSD 1.1 only)
        s = 'notNamespace="##local urn:T"'
    elif sy["f"] == "list":
        s = 'namespace="%s"' % " ".join(tok(t, literal_target, home) for t in sorted(sy["t"]))
    elif home != "T" and sorted(sy["t"]) == ["", home]:
        s = 'namespace="##other"'           # not(absent, home) is what ##other means over there
    else:
        s = 'notNamespace="%s"' % " ".join(tok(t, literal_target, home) for t in sorted(sy["t"]))
    if x["nq"]:
        s += ' notQName="%s"' % " ".join(
            (PFX[n[0]] + ":" + n[1]) if n[0] else n[1] for n in sorted(map(tuple, x["nq"])))
    return s


def clark(n):
    return "{%s}%s" % (URI[n[0]], n[1]) if n[0] else n[1]


def admitted(w):
    return sorted((ns, loc) for ns, loc in NAMES if w.is_matching(clark((ns, loc))))


def key(x):
    return (x["ns"]["f"], tuple(sorted(x["ns"]["t"])), tuple(sorted(map(tuple, x["nq"]))))


_pool: dict = {}


def pool(ver, kind, syns, home="T"):
    """One schema (target namespace `home`) holding every written constraint as a wildcard of `kind`;
    -> key -> object."""
    import xmlschema
    k = (ver, kind, home)
    if k in _pool:
        return _pool[k]
    cls = xmlschema.XMLSchema10 if ver == "1.0" else xmlschema.XMLSchema11
    body = []
    for i, x in enumerate(syns):
        lit = i % 2 == 1
        if kind == "elem":
            body.append(f'<xs:complexType name="c{i}"><xs:sequence><xs:any {attr_text(x, lit, home)} '
                        f'processContents="skip"/></xs:sequence></xs:complexType>')
        else:
            body.append(f'<xs:complexType name="c{i}"><xs:anyAttribute {attr_text(x, lit, home)} '
                        f'processContents="skip"/></xs:complexType>')
    with warnings.catch_warnings():
        warnings.simplefilter("ignore")
        s = cls((HEAD if home == "T" else HEAD_A) + "\n".join(body) + "</xs:schema>")
    out = {}
    for i, x in enumerate(syns):
        t = s.types[f"c{i}"]
        out[key(x)] = t.content[0] if kind == "elem" else t.attributes[None]
    _pool[k] = out
    return out


def chain_case(args):
    """Replay one derivation chain on real wildcard objects. -> list of (what, observed)."""
    rec, syns = args
    import xmlschema
    ver, hist = rec["ver"], rec["hist"]
    want = sorted(map(tuple, rec["den"]))
    bad = []
    # "cross": the operands of the steps come from a schema with ANOTHER target namespace (a base type of
    # another namespace extended here): the same sets, written relative to that namespace (XSD 1.1)
    passes = [("attr", "T"), ("elem", "T")] + ([("attr", "A"), ("elem", "A")] if ver == "1.1" and len(hist) > 1
                                               else [])
    for kind, home in passes:
        p = pool(ver, kind, syns)
        po = pool(ver, kind, syns, home)
        w = copy.copy(p[key(hist[0])])
        raised = None
        if home != "T":
            kind = kind + "/cross-schema"
        for step in hist[1:]:
            o = po[key(step["arg"])]
            try:
                (w.union if step["op"] == "union" else w.intersection)(o)
            except xmlschema.XMLSchemaException as e:
                raised = type(e).__name__
                break
        if raised:
            if not rec["inexpr"]:
                bad.append((f"{kind}: chain raised {raised} although the result is expressible", None))
            continue
        got = admitted(w)
        if rec["inexpr"]:
            # 1.0, not expressible: the library may refuse; a returned wildcard is only wrong if
            # it admits a different set than the true one
            if got != want:
                bad.append((f"{kind}: inexpressible result accepted with a wrong set", got))
            continue
        if got != want:
            bad.append((f"{kind}: chain result admits a different set", got))
        if len(hist) == 2 and home == "T":
            a, b = p[key(hist[0])], p[key(hist[1]["arg"])]
            if hist[1]["op"] == "union":       # the relations do not depend on the op: once
                r = a.is_restriction(b)
                if r and not rec["rel"]["sub"]:
                    bad.append((f"{kind}: is_restriction true but the set is not included", r))
                if kind == "elem":
                    o = a.is_overlap(b)
                    if o != rec["rel"]["ovl"]:
                        bad.append((f"elem: is_overlap={o}, sets intersect={rec['rel']['ovl']}", o))
    return bad


def schema_case(args):
    """Pairs through real schemas, observed by validating instances."""
    rec, _ = args
    import xmlschema
    ver, hist = rec["ver"], rec["hist"]
    cls = xmlschema.XMLSchema10 if ver == "1.0" else xmlschema.XMLSchema11
    x, op, y = hist[0], hist[1]["op"], hist[1]["arg"]
    want = sorted(map(tuple, rec["den"]))
    bad = []

    def build(body):
        with warnings.catch_warnings():
            warnings.simplefilter("ignore")
            try:
                return cls(HEAD + body + "</xs:schema>"), None
            except xmlschema.XMLSchemaException as e:
                return None, e

    def valid_attr_names(s, el="e"):
        out = []
        for ns, loc in NAMES:
            at = f'xmlns:n="{URI[ns]}" n:{loc}="1"' if ns else f'{loc}="1"'
            if s.is_valid(f'<t:{el} xmlns:t="urn:T" {at}/>'):
                out.append((ns, loc))
        return sorted(out)

    def valid_elem_names(s):
        out = []
        for ns, loc in NAMES:
            ch = f'<n:{loc} xmlns:n="{URI[ns]}"/>' if ns else f'<{loc}/>'
            if s.is_valid(f'<t:e xmlns:t="urn:T">{ch}</t:e>'):
                out.append((ns, loc))
        return sorted(out)

    ax, ay = attr_text(x), attr_text(y, True)
    if op == "union":
        # type extension: the complete wildcard is the union of the base's and the local one
        s, err = build(
            f'<xs:complexType name="base"><xs:anyAttribute {ax} processContents="skip"/></xs:complexType>'
            f'<xs:complexType name="ext"><xs:complexContent><xs:extension base="t:base">'
            f'<xs:anyAttribute {ay} processContents="skip"/></xs:extension></xs:complexContent>'
            f'</xs:complexType><xs:element name="e" type="t:ext"/>')
        if s is None:
            if not rec["inexpr"]:
                bad.append((f"extension schema refused ({type(err).__name__}) although the union "
                            f"is expressible", str(err)[:200]))
        else:
            got = valid_attr_names(s)
            if got != want:
                bad.append(("extension: validated attribute names differ from the union", got))
        # restriction (attributes): accepted only if included
        s, err = build(
            f'<xs:complexType name="base"><xs:anyAttribute {ay} processContents="skip"/></xs:complexType>'
            f'<xs:complexType name="res"><xs:complexContent><xs:restriction base="t:base">'
            f'<xs:anyAttribute {ax} processContents="skip"/></xs:restriction></xs:complexContent>'
            f'</xs:complexType><xs:element name="e" type="t:res"/>')
        if s is not None and not rec["rel"]["sub"]:
            bad.append(("attribute wildcard restriction accepted but its set is not included", None))
        # restriction (element wildcards)
        s, err = build(
            f'<xs:complexType name="base"><xs:sequence><xs:any {ay} processContents="skip"/>'
            f'</xs:sequence></xs:complexType>'
            f'<xs:complexType name="res"><xs:complexContent><xs:restriction base="t:base">'
            f'<xs:sequence><xs:any {ax} processContents="skip"/></xs:sequence></xs:restriction>'
            f'</xs:complexContent></xs:complexType><xs:element name="e" type="t:res"/>')
        if s is not None and not rec["rel"]["sub"]:
            bad.append(("element wildcard restriction accepted but its set is not included", None))
        # overlap through Unique Particle Attribution in a choice
        s, err = build(
            f'<xs:element name="e"><xs:complexType><xs:choice><xs:any {ax} processContents="skip"/>'
            f'<xs:any {ay} processContents="skip"/></xs:choice></xs:complexType></xs:element>')
        if (s is None) != rec["rel"]["ovl"]:
            bad.append((f"choice of two wildcards: built={s is not None}, sets intersect="
                        f"{rec['rel']['ovl']}", str(err)[:200] if err else None))
        elif s is not None:
            got = valid_elem_names(s)
            u = sorted(set(map(tuple, rec["den"])))
            if got != u:
                bad.append(("choice of two disjoint wildcards admits a different set", got))
    else:
        # attribute group composition: intersection of the local and the referenced wildcard
        s, err = build(
            f'<xs:attributeGroup name="g"><xs:anyAttribute {ay} processContents="skip"/></xs:attributeGroup>'
            f'<xs:complexType name="ct"><xs:attributeGroup ref="t:g"/>'
            f'<xs:anyAttribute {ax} processContents="skip"/></xs:complexType>'
            f'<xs:element name="e" type="t:ct"/>')
        if s is None:
            if not rec["inexpr"]:
                bad.append((f"attribute-group schema refused ({type(err).__name__})", str(err)[:200]))
        else:
            got = valid_attr_names(s)
            if got != want:
                bad.append(("attribute groups: validated names differ from the intersection", got))
        # two REFERENCED groups in one definition, each also used on its own: the intersection is a new
        # wildcard - the operands keep their own sets (the operations of Wildcards.tla are functions)
        s, err = build(
            f'<xs:attributeGroup name="g1"><xs:anyAttribute {ax} processContents="skip"/></xs:attributeGroup>'
            f'<xs:attributeGroup name="g2"><xs:anyAttribute {ay} processContents="skip"/></xs:attributeGroup>'
            f'<xs:complexType name="ct"><xs:attributeGroup ref="t:g1"/><xs:attributeGroup ref="t:g2"/></xs:complexType>'
            f'<xs:complexType name="c1"><xs:attributeGroup ref="t:g1"/></xs:complexType>'
            f'<xs:complexType name="c2"><xs:attributeGroup ref="t:g2"/></xs:complexType>'
            f'<xs:element name="e" type="t:ct"/><xs:element name="e1" type="t:c1"/><xs:element name="e2" type="t:c2"/>')
        if s is None:
            if not rec["inexpr"]:
                bad.append((f"two-group schema refused ({type(err).__name__})", str(err)[:200]))
        else:
            got = valid_attr_names(s)
            if got != want:
                bad.append(("two referenced groups: validated names differ from the intersection", got))
            for el, w in (("e1", rec["ops"][0]), ("e2", rec["ops"][1])):
                got1, want1 = valid_attr_names(s, el), sorted(map(tuple, w))
                if got1 != want1:
                    bad.append((f"two referenced groups: the type that uses only one of them ({el}) admits {got1}, "
                                f"its own wildcard denotes {want1}: an operand was modified", got1))
    return bad


WITNESS_FILE = None


def load_witnesses():
    import gzip
    import json
    from harness.core import VERIF
    f = VERIF / "findings" / "C16_witnesses.json.gz"
    if not f.exists():
        return set()
    with gzip.open(f, "rt") as fh:
        return set(json.load(fh).get("cross", []))


def judge(ctx: Ctx, recs, syns_by_ver, with_schemas=True, collect=None, witnesses=frozenset()):
    jobs = [(r, syns_by_ver[r["ver"]]) for r in recs if len(r["hist"]) >= 2]
    res = ctx.pmap(chain_case, jobs)
    ctx.impl_replays += len(jobs)
    for (r, _), bad in zip(jobs, res):
        for what, got in bad:
            # F-C16-cross: an operand written ##other in a schema with ANOTHER target namespace; complete
            # witness list of the (seed-independent) chains that fail on the pinned tree
            import json as _json
            k = f"{r['ver']}|{what.split(':')[0]}|{_json.dumps(r['hist'], sort_keys=True)}|{_json.dumps(got)}"
            if collect is not None and "cross-schema" in what:
                collect.setdefault("cross", []).append(k)
            ctx.report({"ver": r["ver"], "hist": r["hist"], "den": r["den"], "inexpr": r["inexpr"],
                        "rel": r["rel"], "observed": got, "driver": "objects"}, what,
                       finding="F-C16-cross" if ("cross-schema" in what and k in witnesses) else None)
    if with_schemas:
        pairs = [j for j in jobs if len(j[0]["hist"]) == 2]
        res = ctx.pmap(schema_case, pairs)
        ctx.impl_replays += len(pairs)
        for (r, _), bad in zip(pairs, res):
            for what, got in bad:
                ctx.report({"ver": r["ver"], "hist": r["hist"], "den": r["den"],
                            "inexpr": r["inexpr"], "rel": r["rel"], "observed": got,
                            "driver": "schemas"}, what)
    return len(jobs)


def explore(ctx: Ctx, ver, maxops, nq):
    consts = {"Ver": f'"{ver}"', "MaxOps": maxops, "UseNQ": "TRUE" if nq else "FALSE"}
    a = ctx.tlc("Wildcards", "Wildcards.cfg", constants=consts, tag=f"A-{ver}-{maxops}-{nq}")
    e = ctx.tlc("Wildcards", "Wildcards_emit.cfg", constants=consts, workers=1, count=False,
                tag=f"emit-{ver}-{maxops}-{nq}")
    recs = e.json_records()
    if len(recs) != a.distinct:
        raise MachineryError(f"emitted {len(recs)} cases for {a.distinct} states")
    return recs


def special_phase(ctx: Ctx):
    """notQName='##defined' / '##definedSibling' (XSD 1.1): spec/WildcardsSpecial.tla against real validations."""
    import xmlschema
    from harness import cm
    r = ctx.tlc("WildcardsSpecial", cfg_text="SPECIFICATION Spec\nCHECK_DEADLOCK FALSE\n", workers=1, tag="special",
                count=False)
    tables = {x["table"]: x["rows"] for x in r.json_records()}
    word = {"defined": "##defined", "sibling": "##definedSibling"}
    n = 0
    for row in tables["elements"]:
        nq = " ".join(word[f] for f in sorted(row["flags"]))
        xsd = (f'<xs:schema xmlns:xs="{cm.XS}" targetNamespace="urn:T" xmlns:t="urn:T" elementFormDefault="qualified">'
               '<xs:element name="g" type="xs:string"/><xs:element name="b" type="xs:string"/>'
               '<xs:element name="root"><xs:complexType><xs:sequence>'
               '<xs:element name="s" type="xs:string" minOccurs="0"/><xs:element ref="t:b" minOccurs="0"/>'
               f'<xs:any namespace="##targetNamespace" {("notQName=" + chr(34) + nq + chr(34)) if nq else ""} '
               'processContents="lax" minOccurs="0" maxOccurs="unbounded"/>'
               '</xs:sequence></xs:complexType></xs:element></xs:schema>')
        kids = {"plain": "<t:p/>", "global": "<t:g>v</t:g>", "sibling": "<t:s>v</t:s><t:s>v</t:s>",
                "both": "<t:b>v</t:b><t:b>v</t:b>"}[row["kind"]]
        xml = f'<t:root xmlns:t="urn:T">{kids}</t:root>'
        n += 1
        try:
            got = xmlschema.XMLSchema11(xsd).is_valid(xml)
        except Exception as e:      # noqa: BLE001
            got = f"raised {type(e).__name__}: {e}"[:160]
        if got != row["ok"]:
            ctx.report({"driver": "special", "flags": row["flags"], "kind": row["kind"], "xsd": xsd, "xml": xml,
                        "observed": got}, f"1.1 xs:any notQName={nq!r}: a name of kind {row['kind']} "
                       f"{'must' if row['ok'] else 'must not'} be admitted: is_valid={got}")
    for row in tables["attributes"]:
        nq = " ".join(word[f] for f in sorted(row["flags"]))
        xsd = (f'<xs:schema xmlns:xs="{cm.XS}" targetNamespace="urn:T" xmlns:t="urn:T">'
               '<xs:attribute name="g" type="xs:string"/>'
               '<xs:element name="root"><xs:complexType>'
               f'<xs:anyAttribute namespace="##targetNamespace" {("notQName=" + chr(34) + nq + chr(34)) if nq else ""} '
               'processContents="lax"/></xs:complexType></xs:element></xs:schema>')
        xml = f'<t:root xmlns:t="urn:T" t:{"g" if row["kind"] == "global" else "p"}="v"/>'
        n += 1
        try:
            got = xmlschema.XMLSchema11(xsd).is_valid(xml)
        except Exception as e:      # noqa: BLE001
            got = f"raised {type(e).__name__}: {e}"[:160]
        if got != row["ok"]:
            ctx.report({"driver": "special", "flags": row["flags"], "kind": row["kind"], "xsd": xsd, "xml": xml,
                        "observed": got}, f"1.1 xs:anyAttribute notQName={nq!r}: a name of kind {row['kind']} "
                       f"{'must' if row['ok'] else 'must not'} be admitted: is_valid={got}")
    ctx.impl_replays += n
    return n


def run(ctx: Ctx, collect=None):
    thorough = ctx.tier == "thorough"
    witnesses = load_witnesses()
    plans = [("1.0", 2 if thorough else 1, False), ("1.1", 2 if thorough else 1, False),
             ("1.1", 1, True)]
    total = 0
    for ver, maxops, nq in plans:
        recs = explore(ctx, ver, maxops, nq)
        syns = [r["hist"][0] for r in recs if len(r["hist"]) == 1]
        total += judge(ctx, recs, {ver: syns}, collect=collect, witnesses=witnesses)
        for r in recs:
            if len(r["hist"]) == maxops + 1:
                ctx.sample({"ver": ver, "chain": r["hist"], "must_admit": r["den"]}, 3)
                break
        _pool.clear()
    total += special_phase(ctx)
    ctx.evaluations = ctx.impl_replays
    ctx.nontrivial = total
    ctx.exhaustive = True
    ctx.rule = ("every derivation chain (start constraint, then up to MaxOps union/intersection "
                "steps) over all namespace constraints writable with ##any/##other/##local/"
                "##targetNamespace/two foreign namespaces (+ notNamespace, notQName in 1.1), "
                "as enumerated by TLC from spec/Wildcards.tla; admitted sets observed on the "
                "universe {absent, target, A, B, fresh} x {x, z}; a case is a distinct chain; plus "
                "notQName ##defined / ##definedSibling x name kind (spec/WildcardsSpecial.tla)")
    ctx.assumptions += [
        "the fresh namespace F and the unnamed local name z represent all names no schema mentions",
        "processContents is 'skip' on every wildcard, so only the namespace constraint decides",
        "XSD 1.0: a union that the 1.0 component model cannot express may be refused by the "
        "library; a result that is returned must still admit exactly the union",
        "is_restriction is judged in one direction only (accepted => included), as the property states",
    ]
    ctx.extra["bounds"] = [{"ver": v, "MaxOps": m, "notQName": n} for v, m, n in plans]


def replay(ctx: Ctx, case):
    rec = {k: case[k] for k in ("ver", "hist", "den", "inexpr", "rel")}
    # the pool must contain every constraint of the chain
    syns = [rec["hist"][0]] + [s["arg"] for s in rec["hist"][1:]]
    uniq = list({key(s): s for s in syns}.values())
    for what, got in chain_case((rec, uniq)):
        ctx.report(dict(rec, observed=got, driver="objects"), what)
    if len(rec["hist"]) == 2:
        for what, got in schema_case((rec, uniq)):
            ctx.report(dict(rec, observed=got, driver="schemas"), what)
    ctx.states = ctx.transitions = 1
