"""C14 - accepted restrictions only narrow what instances are valid.

Spec: spec/ContentModel.tla (RSpec): language inclusion L(derived) <= L(base) decided on the
product of the two configuration-set machines; candidate restrictions are produced in the spec by
labelled edit operators (A: edits labelled as narrowing never violate inclusion, `same` is
included).  B (one direction, as the property states): whenever the library ACCEPTS the schema
with `derived` restricting `base`, inclusion must hold; the spec's shortest witness word is also
run on the real base and derived elements.
"""
from __future__ import annotations

import collections
import gzip
import json

from harness import cm
from harness.core import Ctx, VERIF, MachineryError

WITNESS_FILE = VERIF / "findings" / "C14_witnesses.json.gz"
OCCS = [(1, 1), (0, 1), (1, 99), (2, 2)]
OCCS_FULL = [(1, 1), (0, 1), (0, 99), (1, 99), (2, 2), (1, 2), (0, 2)]


SYMS = {"RestrW": ["a", "b", "c", "o", "u"]}     # o: an element of a foreign namespace, u: of no namespace


def restr_universe(ctx: Ctx, family, shard, syms, tag):
    """shard = (kind, (mn, mx)) of the base group."""
    consts = {"Ver": '"1.0"', "MaxLen": 0, "Syms": "{" + ", ".join(f'"{s}"' for s in syms) + "}"}
    body = f'RFamilyShard("{family}", "{shard[0]}", <<{shard[1][0]}, {shard[1][1]}>>)'
    files = {"MC_CM.tla": "---- MODULE MC_CM ----\nEXTENDS ContentModel\nMCModels == " + body + "\n====\n"}
    cfg = (VERIF / "spec" / "ContentModel_restr.cfg").read_text() + "\nCONSTANT ModelSet <- MCModels\n"
    r = ctx.tlc("MC_CM", cfg_text=cfg, constants=consts, files=files, tag=f"restr-{tag}", workers=2)
    pairs = {}
    for rec in r.json_records():
        k = (cm.mkey(rec["b"]), cm.mkey(rec["d"]))
        p = pairs.setdefault(k, {"b": rec["b"], "d": rec["d"], "labels": set(), "witness": None,
                                 "seen_init": False})
        p["labels"].add(rec["label"])
        if rec["w"] == []:
            p["seen_init"] = True
        if rec["bad"] and (p["witness"] is None or len(rec["w"]) < len(p["witness"])):
            p["witness"] = rec["w"]
    for k, p in pairs.items():
        if not p["seen_init"]:
            raise MachineryError(f"pair without initial record: {k}")
        p["labels"] = sorted(p["labels"])
    return list(pairs.values())


def restriction_xsd(b, d):
    gb, gd = [], []
    pb = cm.particle_xsd(b, [], "inline", gb)
    pd = cm.particle_xsd(d, [], "inline", gd).replace(' id="p', ' id="q')
    return (f'<xs:schema xmlns:xs="{cm.XS}" targetNamespace="{cm.TNS}" xmlns:t="{cm.TNS}" '
            f'elementFormDefault="qualified">'
            f'<xs:complexType name="B">{pb}</xs:complexType>'
            f'<xs:complexType name="D"><xs:complexContent><xs:restriction base="t:B">{pd}'
            f'</xs:restriction></xs:complexContent></xs:complexType>'
            f'<xs:element name="eB" type="t:B"/><xs:element name="eD" type="t:D"/></xs:schema>')


def doc(root, w):
    return (f'<t:{root} xmlns:t="{cm.TNS}">' + "".join(cm.SYM_XML.get(a) or f"<t:{a}/>" for a in w) + f"</t:{root}>")


def judge(job):
    p, vers = job
    out = []
    xsd = restriction_xsd(p["b"], p["d"])
    for ver in vers:
        schema, err = cm.build(ver, xsd)
        included = p["witness"] is None
        if schema is None:
            out.append((ver, "refused", included, None))
            continue
        conf = None
        if not included:
            w = p["witness"]
            try:
                conf = {"derived_accepts": schema.is_valid(doc("eD", w)),
                        "base_accepts": schema.is_valid(doc("eB", w))}
            except Exception as e:      # noqa: BLE001
                conf = {"error": f"{type(e).__name__}: {e}"[:160]}
        out.append((ver, "accepted", included, conf))
    return out


# ----------------------------------------------------------------------------- attribute uses
def attr_restriction_xsd(rec, variant=0):
    from checks import c03

    def body(d0, dT, w):
        wild = "" if w["c"] == "none" else \
            f'<xs:anyAttribute namespace="{c03.WC[w["c"]]}" processContents="{w["pc"]}"/>'
        return c03.attr_decl("x", d0, variant) + c03.attr_decl("y", dT, variant) + wild
    return (f'<xs:schema xmlns:xs="{cm.XS}" targetNamespace="urn:T" xmlns:t="urn:T" '
            f'elementFormDefault="qualified"><xs:import namespace="urn:A"/>'
            f'<xs:attribute name="y" type="xs:integer"/>'
            f'<xs:complexType name="B">{body(rec["bd0"], rec["bdT"], rec["bw"])}</xs:complexType>'
            f'<xs:complexType name="R"><xs:complexContent><xs:restriction base="t:B">'
            f'{body(rec["rd0"], rec["rdT"], rec["rw"])}</xs:restriction></xs:complexContent></xs:complexType>'
            f'<xs:element name="b" type="t:B"/><xs:element name="r" type="t:R"/></xs:schema>')


def judge_attr(job):
    from checks import c03
    rec, idx = job
    out = []
    xsd = attr_restriction_xsd(rec, idx % 2)
    for ver in ("1.0", "1.1"):
        schema, err = c03.build(ver, xsd)
        if schema is None:
            out.append((ver, "refused", None))
            continue
        conf = None
        if not rec["included"]:
            # the property, literally, on the implementation: some attribute set of the spec's counterexample
            # set must be valid for the derived type and invalid for the base type
            conf = {"confirmed": None, "checked": 0}
            for inst in [rec["witness"]] + [i for i in rec["bad"] if i != rec["witness"]]:
                doc = c03.instance_xml(inst)
                try:
                    rv = schema.is_valid(doc.replace("<t:e ", "<t:r "))
                    bv = schema.is_valid(doc.replace("<t:e ", "<t:b "))
                except Exception as e:      # noqa: BLE001
                    conf["error"] = f"{type(e).__name__}: {e}"[:160]
                    break
                conf["checked"] += 1
                if rv and not bv:
                    conf["confirmed"] = inst
                    break
        out.append((ver, "accepted", conf))
    return out


def attr_phase(ctx: Ctx, witnesses, collect):
    thorough = ctx.tier == "thorough"
    wild = ('{NoWild} \\cup {[c |-> c, pc |-> p] : c \\in {"any", "other", "tns"}, p \\in {"strict", "lax", "skip"}}'
            if thorough else
            '{NoWild} \\cup {[c |-> c, pc |-> p] : c \\in {"any", "other"}, p \\in {"strict", "skip"}}')
    declt = ('{NoDecl, [use |-> "optional", vc |-> "none"], [use |-> "required", vc |-> "none"]}' if thorough
             else '{NoDecl, [use |-> "optional", vc |-> "none"]}')
    files = {"MC_AR.tla": "---- MODULE MC_AR ----\nEXTENDS AttrRestriction\nMCWild == " + wild +
             "\nMCDeclT == " + declt + "\n====\n"}
    cfg = ("SPECIFICATION RSpecA\nCONSTRAINT REmit\nCHECK_DEADLOCK FALSE\nCONSTANTS\n Small = TRUE\n"
           " WildSet <- MCWild\n DeclTSet <- MCDeclT\n")
    r = ctx.tlc("MC_AR", cfg_text=cfg, files=files, tag="attr-restriction", workers=16)
    recs = r.json_records()
    jobs = [(rec, i) for i, rec in enumerate(recs)]
    st = collections.Counter()
    st["pairs"] = len(recs)
    st["pairs_not_included"] = sum(1 for x in recs if not x["included"])
    n = 0
    for (rec, i), res in zip(jobs, ctx.pmap(judge_attr, jobs)):
        for ver, outcome, conf in res:
            n += 1
            st[f"{ver}_{outcome}_{'included' if rec['included'] else 'not_included'}"] += 1
            if outcome == "accepted" and not rec["included"] and not conf.get("confirmed") and "error" not in conf:
                st[f"{ver}_accepted_not_included_but_not_demonstrable_on_the_implementation"] += 1
            elif outcome == "accepted" and not rec["included"]:
                key = f"{ver}|" + json.dumps([rec[k] for k in ("bd0", "bdT", "bw", "rd0", "rdT", "rw")], sort_keys=True)
                if collect is not None:
                    collect.setdefault("Attr", []).append(key)
                structural = (rec["bd0"]["use"] == "none" and rec["bw"]["pc"] == "strict"
                              and rec["bw"]["c"] in ("any", "local") and rec["rd0"]["use"] in ("optional", "required")
                              and (conf.get("confirmed") or {}).get("n0", "absent") != "absent")
                finding = "F-C14-attr" if structural else None
                ctx.report({"scope": "Attr", "ver": ver, "rec": rec, "implementation_on_witness": conf,
                            "xsd": attr_restriction_xsd(rec, i % 2)},
                           f"{ver}: attribute restriction accepted: base x={rec['bd0']} y={rec['bdT']} "
                           f"wildcard={rec['bw']} -> derived x={rec['rd0']} y={rec['rdT']} wildcard={rec['rw']}, but "
                           f"the attribute set {conf.get('confirmed') or rec['witness']} is valid for the derived type "
                           f"only (implementation: {conf})", finding=finding)
    ctx.extra.setdefault("per_scope", {})["Attr"] = dict(st)
    some = [x for x in recs if not x["included"]][:1] + recs[:1]
    for x in some:
        ctx.sample({"scope": "Attr", "base": [x["bd0"], x["bdT"], x["bw"]], "derived": [x["rd0"], x["rdT"], x["rw"]],
                    "included": x["included"], "witness": x["witness"]}, 12)
    return n


# ----------------------------------------------------------------------------- element declarations
ER_TYPES = {"string": "xs:string", "AB": "t:AB", "A1": "t:A1", "int": "xs:int"}
ER_VC = {"none": "", "fixA": ' fixed="A"', "fixB": ' fixed="B"', "defA": ' default="A"', "fix7": ' fixed="7"'}


def elem_decl(c):
    return (f'<xs:sequence><xs:element name="x" type="{ER_TYPES[c["type"]]}"{ER_VC[c["vc"]]}'
            + (' nillable="true"' if c["nillable"] else "") + "/></xs:sequence>")


def elem_restriction_xsd(rec):
    return (f'<xs:schema xmlns:xs="{cm.XS}" targetNamespace="{cm.TNS}" xmlns:t="{cm.TNS}" '
            f'elementFormDefault="qualified">'
            '<xs:simpleType name="AB"><xs:restriction base="xs:string"><xs:enumeration value="A"/>'
            '<xs:enumeration value="B"/></xs:restriction></xs:simpleType>'
            '<xs:simpleType name="A1"><xs:restriction base="t:AB"><xs:enumeration value="A"/>'
            '</xs:restriction></xs:simpleType>'
            f'<xs:complexType name="B">{elem_decl(rec["b"])}</xs:complexType>'
            f'<xs:complexType name="D"><xs:complexContent><xs:restriction base="t:B">{elem_decl(rec["d"])}'
            f'</xs:restriction></xs:complexContent></xs:complexType>'
            f'<xs:element name="eB" type="t:B"/><xs:element name="eD" type="t:D"/></xs:schema>')


def elem_doc(root, inst):
    nil = ' xsi:nil="true"' if inst["nil"] else ""
    return (f'<t:{root} xmlns:t="{cm.TNS}" xmlns:xsi="http://www.w3.org/2001/XMLSchema-instance">'
            f'<t:x{nil}>{inst["text"]}</t:x></t:{root}>')


def judge_elem(rec):
    out = []
    xsd = elem_restriction_xsd(rec)
    for ver in ("1.0", "1.1"):
        schema, err = cm.build(ver, xsd)
        if schema is None:
            out.append((ver, "refused", None))
            continue
        conf = None
        if not rec["included"]:
            # the property, literally, on the implementation: an instance of the spec's counterexample set
            # that is valid for the derived type and invalid for the base type
            conf = {"confirmed": None, "checked": 0}
            for inst in sorted(rec["bad"], key=lambda i: (i["nil"], i["text"])):
                try:
                    dv = schema.is_valid(elem_doc("eD", inst))
                    bv = schema.is_valid(elem_doc("eB", inst))
                except Exception as e:      # noqa: BLE001
                    conf["error"] = f"{type(e).__name__}: {e}"[:160]
                    break
                conf["checked"] += 1
                if dv and not bv:
                    conf["confirmed"] = inst
                    break
        out.append((ver, "accepted", conf))
    return out


def elem_phase(ctx: Ctx):
    cfg = "SPECIFICATION ESpec\nCONSTRAINT EEmit\nCHECK_DEADLOCK FALSE\n"
    r = ctx.tlc("ElemRestriction", cfg_text=cfg, tag="elem-restriction", workers=1)
    recs = r.json_records()
    if len(recs) < 700:
        raise MachineryError(f"ElemRestriction emitted {len(recs)} pairs")
    st = collections.Counter()
    st["pairs"] = len(recs)
    st["pairs_not_included"] = sum(1 for x in recs if not x["included"])
    n = 0
    for rec, res in zip(recs, ctx.pmap(judge_elem, recs)):
        for ver, outcome, conf in res:
            n += 1
            st[f"{ver}_{outcome}_{'included' if rec['included'] else 'not_included'}"] += 1
            if outcome == "refused" and rec["ok_per_rec"]:
                st[f"{ver}_refused_although_the_Recommendation_allows_it"] += 1
            if outcome != "accepted" or rec["included"]:
                continue
            if not conf.get("confirmed") and "error" not in conf:
                st[f"{ver}_accepted_not_included_but_not_demonstrable_on_the_implementation"] += 1
                continue
            ctx.report({"scope": "Elem", "ver": ver, "rec": rec, "implementation_on_witness": conf,
                        "xsd": elem_restriction_xsd(rec)},
                       f"{ver}: element restriction accepted: base x={rec['b']} -> derived x={rec['d']}, but the "
                       f"element {conf.get('confirmed') or rec['bad'][:1]} is valid for the derived type only "
                       f"(implementation: {conf})")
    ctx.extra.setdefault("per_scope", {})["Elem"] = dict(st)
    bad = [x for x in recs if not x["included"]]
    for x in bad[:1] + recs[:1]:
        ctx.sample({"scope": "Elem", "base": x["b"], "derived": x["d"], "included": x["included"],
                    "bad_instances": x["bad"][:3]}, 12)
    return n


def load_witnesses():
    if not WITNESS_FILE.exists():
        return {}
    with gzip.open(WITNESS_FILE, "rt") as f:
        return json.load(f)


def plans(tier):
    if tier == "quick":
        return [("RestrQ", [(k, o) for k in "sc" for o in OCCS]), ("RestrA", [("a", (1, 1)), ("a", (0, 1))]),
                ("RestrW", [("s", (1, 1)), ("c", (1, 1))])]
    return [("RestrQ", [(k, o) for k in "sc" for o in OCCS]), ("RestrA", [("a", (1, 1)), ("a", (0, 1))]),
            ("RestrW", [("s", (1, 1)), ("c", (1, 1))]),
            ("Restr1", [(k, o) for k in "sc" for o in OCCS_FULL])]


def run(ctx: Ctx, collect=None):
    witnesses = load_witnesses()
    total = 0
    per_scope = {}
    for family, shards in plans(ctx.tier):
        syms = SYMS.get(family, ["a", "b", "c"])
        shard_pairs = ctx.parallel(
            [(lambda sh=sh: restr_universe(ctx, family, sh, syms, f"{family}-{sh[0]}{sh[1][0]}_{sh[1][1]}"))
             for sh in shards], width=8)
        pairs = [p for sp in shard_pairs for p in sp]
        jobs = [(p, ["1.0", "1.1"]) for p in pairs]
        results = ctx.pmap(judge, jobs)
        st = collections.Counter()
        st["pairs"] = len(pairs)
        st["pairs_not_included"] = sum(1 for p in pairs if p["witness"] is not None)
        for (p, _), res in zip(jobs, results):
            for ver, outcome, included, conf in res:
                total += 1
                st[f"{ver}_{outcome}_{'included' if included else 'not_included'}"] += 1
                if outcome == "accepted" and not included:
                    key = f"{ver}|{cm.model_str(p['b'])}|{cm.model_str(p['d'])}"
                    if collect is not None:
                        collect.setdefault(family, []).append(key)
                    finding = "F-C14-accept" if key in witnesses.get(family, ()) else None
                    ctx.report({"scope": family, "ver": ver, "base": p["b"], "derived": p["d"],
                                "base_str": cm.model_str(p["b"]), "derived_str": cm.model_str(p["d"]),
                                "labels": p["labels"], "witness_word": p["witness"],
                                "implementation_on_witness": conf,
                                "xsd": restriction_xsd(p["b"], p["d"])},
                               f"{ver}: restriction {cm.model_str(p['b'])} -> {cm.model_str(p['d'])} accepted "
                               f"but '{''.join(p['witness'])}' is valid for the derived model only "
                               f"(implementation on the witness: {conf})", finding=finding)
        per_scope[family] = dict(st)
        for p in pairs[:: max(1, len(pairs) // 3)][:3]:
            ctx.sample({"base": cm.model_str(p["b"]), "derived": cm.model_str(p["d"]),
                        "labels": p["labels"],
                        "witness_in_derived_not_base": "".join(p["witness"]) if p["witness"] else None}, 9)
    ctx.extra["per_scope"] = per_scope
    total += attr_phase(ctx, witnesses, collect)
    total += elem_phase(ctx)
    ctx.impl_replays = ctx.evaluations = ctx.nontrivial = total
    ctx.exhaustive = True
    ctx.rule = ("every (base, derived) pair produced by the spec's edit operators (occurrence "
                "tightening/widening of the group or a child, drop/add/rename/swap a child, choose a "
                "branch, change the group kind; family RestrW: exchange the namespace constraint of a wildcard among 7 "
                "constraints, replace the particle by an element or by a repeated choice / sequence around it) over the "
                "base family x schema class; a case is one "
                "strict build of the restriction; only ACCEPTED restrictions are judged; plus every (base, derived) "
                "pair of attribute uses and attribute wildcards of spec/AttrRestriction.tla (uses of x: 7 x 7, "
                "of t:y and the wildcards bounded per tier), inclusion decided over the whole attribute-set space; plus every "
                "(base, derived) pair of local element declarations of spec/ElemRestriction.tla (type x value "
                "constraint x nillable: 28 x 28), inclusion decided over text x xsi:nil")
    ctx.assumptions += [
        "attribute restrictions: a pair the spec calls not included is reported only if the implementation itself "
        "validates one of the spec's counterexample attribute sets for the derived type and not for the base type "
        "(where F-C03-a makes the implementation stricter than the spec the pair is counted as not demonstrable)",
        "inclusion is decided exactly on the product automaton (no word-length bound)",
        "rejected-but-included restrictions (incompleteness) are counted in per_scope, not judged",
        "content models, attribute uses / wildcards and element declarations; facet restrictions are not judged here",
        "element declarations: the empty element that a default / fixed value ADDED by the restriction fills in is "
        "not judged (the Recommendation itself permits that widening: ElemRestriction.tla LawGap)"]


def replay(ctx: Ctx, case):
    if case.get("scope") in ("Elem", "Attr"):
        res = judge_elem(case["rec"]) if case["scope"] == "Elem" else judge_attr((case["rec"], 0)) + \
            judge_attr((case["rec"], 1))
        for ver, outcome, conf in res:
            if ver == case["ver"] and outcome == "accepted" and conf and (conf.get("confirmed") or "error" in conf):
                ctx.report(dict(case, implementation_on_witness=conf),
                           f"{ver}: restriction accepted but {conf.get('confirmed')} is valid for the derived type only")
                return
        return
    b, d = case["base"], case["derived"]
    import itertools
    # decide inclusion for this single pair with an explicit model set
    syms = SYMS.get(case.get("scope"), ["a", "b", "c"])
    consts = {"Ver": '"1.0"', "MaxLen": 0, "Syms": "{" + ", ".join(f'"{x}"' for x in syms) + "}"}
    files = {"MC_CM.tla": "---- MODULE MC_CM ----\nEXTENDS ContentModel\nMCModels == {<<"
             + cm.to_tla(b) + ", " + cm.to_tla(d) + ', "replay">>}\n====\n'}
    cfg = (VERIF / "spec" / "ContentModel_restr.cfg").read_text() + "\nCONSTANT ModelSet <- MCModels\n"
    r = ctx.tlc("MC_CM", cfg_text=cfg, constants=consts, files=files, tag="replay", workers=1)
    bad = [x["w"] for x in r.json_records() if x["bad"]]
    p = {"b": b, "d": d, "witness": min(bad, key=len) if bad else None}
    for ver, outcome, included, conf in judge((p, [case["ver"]])):
        if outcome == "accepted" and not included:
            ctx.report(dict(case, implementation_on_witness=conf),
                       f"{ver}: restriction accepted but not included")
