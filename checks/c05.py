"""C05 - decoded data re-encodes to a valid, equivalent document; strict encode is sound.

Spec: spec/Converters.tla - generator of valid documents (attributes, simple content with
attributes, list values, mixed content, repeated and interleaved children) and the declarative
validity Valid(tree) that judges what encode() returns.  A: every generated document satisfies
Valid.  B: for every document and every lossless convention (JsonML, data elements; default,
BadgerFish, GData when the same-named children are contiguous): decode -> encode must give a tree
that the SPEC accepts (batch-judged by TLC, Judge_Converters.tla), equal to the original in
structure, attribute sets and typed values, and decoding it again must give the same data (for a part of
the documents also through to_json / from_json).
Soundness: the decoded data is mutated (drop, duplicate, retype, reorder entries) and encoded in
strict mode: either a validation error, or a tree the spec accepts.
"""
from __future__ import annotations

import copy
import json
import random
import re
import warnings
from decimal import Decimal, InvalidOperation

from harness import cm, traces
from harness.core import Ctx, MachineryError

T = "urn:T"
XSD = (f'<xs:schema xmlns:xs="{cm.XS}" targetNamespace="{T}" xmlns:t="{T}" elementFormDefault="qualified">'
       '<xs:element name="doc"><xs:complexType><xs:sequence>'
       '<xs:element name="rec" type="t:rec" maxOccurs="unbounded"/></xs:sequence></xs:complexType></xs:element>'
       '<xs:complexType name="rec"><xs:sequence>'
       '<xs:element name="name" type="xs:string"/><xs:element name="fx" type="xs:int" fixed="1" minOccurs="0"/>'
       '<xs:element name="tags" minOccurs="0" maxOccurs="2"><xs:simpleType><xs:restriction><xs:simpleType>'
       '<xs:list itemType="xs:int"/></xs:simpleType><xs:minLength value="2"/></xs:restriction></xs:simpleType></xs:element>'
       '<xs:element name="code" type="t:code" minOccurs="0"/>'
       '<xs:element name="opt" type="xs:int" nillable="true" minOccurs="0"/>'
       '<xs:element name="mark" minOccurs="0"><xs:complexType><xs:attribute name="lvl" type="xs:int"/></xs:complexType></xs:element>'
       '<xs:element name="alt" type="t:altBase" minOccurs="0">@ALT@</xs:element>'
       '<xs:element name="price" minOccurs="0"><xs:complexType><xs:simpleContent><xs:extension base="xs:decimal">'
       '<xs:attribute name="cur" type="xs:string" use="required"/></xs:extension></xs:simpleContent>'
       '</xs:complexType></xs:element>'
       '<xs:element name="para" minOccurs="0"><xs:complexType mixed="true"><xs:sequence>'
       '<xs:element name="em" type="xs:string" minOccurs="0" maxOccurs="unbounded"/></xs:sequence>'
       '</xs:complexType></xs:element>'
       '<xs:choice minOccurs="0" maxOccurs="unbounded"><xs:element name="a" type="xs:int"/>'
       '<xs:element name="b" type="xs:string"/></xs:choice>'
       '<xs:sequence minOccurs="0" maxOccurs="unbounded"><xs:element name="n" type="xs:int" minOccurs="0"/>'
       '<xs:element name="l" type="xs:int" minOccurs="0"/></xs:sequence><xs:element name="t" type="xs:int" minOccurs="0"/>'
       '</xs:sequence><xs:attribute name="id" type="xs:int" use="required"/>'
       '<xs:attribute name="flag" type="xs:boolean"/><xs:attribute name="ucode" type="t:code"/>'
       '<xs:attribute name="ver" type="xs:int" fixed="1"/><xs:attribute name="kws"><xs:simpleType><xs:restriction>'
       '<xs:simpleType><xs:list itemType="xs:NMTOKEN"/></xs:simpleType><xs:minLength value="2"/></xs:restriction>'
       '</xs:simpleType></xs:attribute></xs:complexType>'
       '<xs:complexType name="altBase"><xs:sequence><xs:element name="x" type="xs:string" minOccurs="0"/></xs:sequence>'
       '<xs:attribute name="kind" type="xs:boolean" use="required"/></xs:complexType>'
       '<xs:complexType name="altFull"><xs:complexContent><xs:restriction base="t:altBase"><xs:sequence>'
       '<xs:element name="x" type="xs:string"/></xs:sequence></xs:restriction></xs:complexContent></xs:complexType>'
       '<xs:complexType name="altPlain"><xs:complexContent><xs:restriction base="t:altBase"><xs:sequence/>'
       '</xs:restriction></xs:complexContent></xs:complexType>'
       '<xs:simpleType name="code"><xs:restriction><xs:simpleType><xs:union memberTypes="xs:int xs:string"/>'
       '</xs:simpleType><xs:pattern value="[0-9]{3}|[a-z]{2,5}"/></xs:restriction></xs:simpleType></xs:schema>')
TEXT = {"f1": "01", "s": "abc", "i": "5", "d": "2.5", "l": "1 2 3", "x": "zz", "u3": "123", "ua": "abc"}
ATTR = {"k2": "ab cd", "f1": "+1", "i": "7", "bool": "true", "boolF": "false", "s": "EUR", "u3": "456", "ua": "xyz", "t": "true", "f": "false"}
ALT11 = ("<xs:alternative test=\"@kind = 'true'\" type=\"t:altFull\"/><xs:alternative type=\"t:altPlain\"/>")
XSI_NS = "http://www.w3.org/2001/XMLSchema-instance"
_schema: dict = {}


def schema(ver="1.0"):
    """1.0: alt has its base type (kind true or false, x optional); 1.1: the type alternatives decide."""
    if ver not in _schema:
        import xmlschema
        _schema[ver] = (xmlschema.XMLSchema10(XSD.replace("@ALT@", "")) if ver == "1.0"
                        else xmlschema.XMLSchema11(XSD.replace("@ALT@", ALT11)))
    return _schema[ver]


def render(nodes):
    out, stack = [], []
    pending_tail = []
    for n in nodes:
        depth = len(n["path"])
        while len(stack) > depth:
            tag, mixed = stack.pop()
            out.append(f"</{tag}>")
            if stack and stack[-1][1]:
                out.append(" tail ")
        tag = "t:" + n["name"]
        at = "".join(f' {"xsi:nil" if a == "nil" else a}="{ATTR[v]}"' for a, v in sorted(map(tuple, n["attrs"])))
        if depth == 0:
            at = f' xmlns:t="{T}" xmlns:xsi="{XSI_NS}"' + at
        out.append(f"<{tag}{at}>")
        mixed = n["text"] == "m"
        stack.append((tag, mixed))
        if mixed:
            out.append("lead ")
        elif n["name"] in ("n", "l"):
            out.append(str(n["path"][-1]))        # distinct values: the ORDER of the siblings is observable
        elif n["text"] != "-":
            out.append(TEXT[n["text"]])
    while stack:
        tag, mixed = stack.pop()
        out.append(f"</{tag}>")
        if stack and stack[-1][1]:
            out.append(" tail ")
    return "".join(out)


def is_int(s):
    return bool(re.fullmatch(r"\s*[+-]?[0-9]+\s*", s or ""))


def is_dec(s):
    return bool(re.fullmatch(r"\s*[+-]?([0-9]+(\.[0-9]*)?|\.[0-9]+)\s*", s or ""))


def code_class(v):
    """The union type collapses white space before the pattern applies (its members' facet is not fixed:
    the pattern is matched against the lexical form as written, XSD 1.0 3.14.4)."""
    if re.fullmatch(r"[0-9]{3}", v):
        return "u3"
    if re.fullmatch(r"[a-z]{2,5}", v):
        return "ua"
    return "x"


def abstract(elem):
    """Encoded element tree -> flat node list in the vocabulary of Converters.tla (value classes)."""
    nodes = []

    def local(tag):
        return tag.split("}")[1] if tag.startswith("{%s}" % T) else tag

    def walk(e, p):
        name = local(e.tag)
        attrs = []
        for k, v in sorted(e.attrib.items()):
            if k == "id":
                attrs.append(["id", "i" if is_int(v) else "x"])
            elif k == "flag":
                attrs.append(["flag", "bool" if v.strip() in ("true", "false", "1", "0") else "x"])
            elif k == "kind":
                attrs.append(["kind", {"true": "bool", "1": "bool", "false": "boolF", "0": "boolF"}.get(v.strip(), "x")])
            elif k == "lvl":
                attrs.append(["lvl", "i" if is_int(v) else "x"])
            elif k == "ver":
                attrs.append(["ver", "f1" if (is_int(v) and int(v) == 1) else "x"])
            elif k == "ucode":
                attrs.append(["ucode", code_class(v)])
            elif k == "kws":
                toks = v.split()
                attrs.append(["kws", "x" if not all(re.fullmatch(r"[\w.:-]+", t) for t in toks) else
                              "k2" if len(toks) > 1 else "k1"])
            elif k == "{%s}nil" % XSI_NS:
                attrs.append(["nil", "t" if v.strip() in ("true", "1") else "f" if v.strip() in ("false", "0") else "x"])
            else:
                attrs.append([local(k), "s"])
        txt = (e.text or "")
        kids = [c for c in e if isinstance(c.tag, str)]
        if name == "para":
            cls = "m"
        elif not txt.strip():
            cls = "-"
        elif name == "fx":
            cls = "f1" if (is_int(txt) and int(txt) == 1) else "x"
        elif name in ("a", "opt", "n", "l", "t"):
            cls = "i" if is_int(txt) else "x"
        elif name == "code":
            cls = code_class(txt)
        elif name in ("mark", "alt"):
            cls = "x"
        elif name == "tags":
            cls = ("l" if len(txt.split()) > 1 else "i") if all(is_int(t) for t in txt.split()) else "x"
        elif name == "price":
            cls = "d" if is_dec(txt) else "x"
        elif name in ("doc", "rec"):
            cls = "x"            # character data where none is allowed
        else:
            cls = "s"
        nodes.append({"path": list(p), "name": name, "attrs": attrs, "text": cls})
        for i, c in enumerate(kids):
            walk(c, p + (i + 1,))
    walk(elem, ())
    return nodes


def typed(elem):
    """Structure + attribute sets + typed values, for equality with the original document."""
    def val(name, s):
        s = (s or "").strip()
        try:
            if name in ("a", "id", "opt", "lvl", "ver", "fx", "n", "l", "t"):
                return int(s)
            if name in ("code", "ucode") and re.fullmatch(r"[0-9]{3}", s):
                return int(s)
            if name == "price":
                return Decimal(s)
            if name == "tags":
                return tuple(int(x) for x in s.split())
            if name in ("flag", "kind"):
                return s in ("true", "1")
            if name == "kws":
                return tuple(s.split())
        except (ValueError, InvalidOperation):
            pass
        return s

    def walk(e):
        name = e.tag.split("}")[-1]
        attrs = {k.split("}")[-1]: val(k.split("}")[-1], v) for k, v in e.attrib.items()}
        if name == "rec":
            attrs.setdefault("ver", 1)      # an absent attribute with a fixed value IS that value (C03)
        attrs = tuple(sorted(attrs.items()))
        kids = tuple(walk(c) for c in e if isinstance(c.tag, str))
        if name == "para":      # mixed: the character data chunks in order, each whitespace-stripped
            text = tuple(t.strip() for t in ([e.text] + [c.tail for c in e]) if t and t.strip())
        else:
            text = val(name, e.text)
        return (name, attrs, text, kids)
    return walk(elem)


def nl_canon(t):
    """typed() tree with the n / l children of every rec regrouped by name (order within a name kept)."""
    name, attrs, text, kids = t
    kids = tuple(nl_canon(k) for k in kids)
    if name == "rec":
        idx = [i for i, k in enumerate(kids) if k[0] in ("n", "l")]
        if idx:
            block = [kids[i] for i in idx]
            block = [k for k in block if k[0] == "n"] + [k for k in block if k[0] == "l"]
            kids = kids[:idx[0]] + tuple(block) + kids[idx[-1] + 1:]
    return (name, attrs, text, kids)


def converters():
    import xmlschema
    out = [("jsonml", xmlschema.JsonMLConverter, False),
           ("default", xmlschema.XMLSchemaConverter(cdata_prefix="#"), True),
           ("badgerfish", xmlschema.BadgerFishConverter, True)]
    if hasattr(xmlschema, "GDataConverter"):
        out.append(("gdata", xmlschema.GDataConverter, True))
    out.append(("dataelement", xmlschema.DataElementConverter, False))
    return out


RETYPE = ["zz", 12345678901234567890, None, [], {"bogus": 1}, True, 1.5, -1.5, 5, 45, 123, "045", "ABC", "ab",
          Decimal("12.5"), [1, 2], [[1, 2]], "1 2", ""]


def leaves(data):
    """(container, key) of every scalar (or list-of-scalars) slot of decoded data."""
    out = []

    def walk(x):
        items = enumerate(x) if isinstance(x, list) else x.items() if isinstance(x, dict) else ()
        for k, v in items:
            if isinstance(v, (dict,)) or (isinstance(v, list) and any(isinstance(y, (list, dict)) for y in v)):
                walk(v)
            elif not (isinstance(x, list) and k == 0 and isinstance(v, str)):      # JsonML tag slot
                out.append((x, k))
    walk(data)
    return out


def mutate(data, rng):
    """One seeded mutation of decoded data (JsonML lists or dicts): drop / duplicate / retype / reorder."""
    data = copy.deepcopy(data)
    sites = []

    def collect(x, parent, key):
        if isinstance(x, list):
            sites.append((parent, key, x))
            for i, v in enumerate(x):
                collect(v, x, i)
        elif isinstance(x, dict):
            sites.append((parent, key, x))
            for k, v in x.items():
                collect(v, x, k)
    collect(data, None, None)
    parent, key, target = rng.choice(sites)
    op = rng.choice(["drop", "dup", "retype", "reorder"])
    if isinstance(target, list) and len(target) > 1:
        i = rng.randrange(1, len(target))
        if op == "drop":
            del target[i]
        elif op == "dup":
            target.insert(i, copy.deepcopy(target[i]))
        elif op == "retype":
            target[i] = rng.choice(RETYPE)
        else:
            j = rng.randrange(1, len(target))
            target[i], target[j] = target[j], target[i]
    elif isinstance(target, dict) and target:
        k = rng.choice(sorted(target, key=str))
        if op == "drop":
            del target[k]
        elif op == "dup":
            target[str(k) + "_copy"] = copy.deepcopy(target[k])
        elif op == "retype":
            target[k] = rng.choice(RETYPE + [["a", "b"]])
        else:
            items = list(target.items())
            rng.shuffle(items)
            target.clear()
            target.update(items)
    return data, op


def judge(job):
    rec, idx, seed, nmut, leafy = job
    import xmlschema
    s = schema("1.1" if (rec.get("needs11") or idx % 2) else "1.0")
    rng = random.Random(seed)
    out, trees = [], []
    xml = render(rec["nodes"])
    import xml.etree.ElementTree as ET
    original = typed(ET.fromstring(xml))
    with warnings.catch_warnings():
        warnings.simplefilter("ignore")
        if not s.is_valid(xml):
            return [("setup", "the generated document is not valid for the implementation: "
                     + str(next(s.iter_errors(xml)).reason)[:120], xml)], []
        for name, conv, needs_contiguous in converters():
            if needs_contiguous and not rec["contiguous"]:
                continue
            try:
                data = s.decode(xml, converter=conv)
                elem = s.encode(data, converter=conv)
            except Exception as e:      # noqa: BLE001
                out.append((name, f"round trip raised {type(e).__name__}: {str(e)[:160]}", xml))
                continue
            trees.append((name, "roundtrip", abstract(elem), xml))
            if typed(elem) != original:
                # F-C05-e: a name-keyed convention cannot tell in which order children of DIFFERENT names alternate
                # inside the repeated group (n?, l?)*: the encoder picks one valid order (n l n l for n n l l); the
                # order within each name and everything else must be kept
                fid = "F-C05-e" if (needs_contiguous and rec.get("runs") and nl_canon(typed(elem)) == nl_canon(original)) \
                    else None
                out.append((name, f"encode(decode(x)) differs from x: {typed(elem)} vs {original}"[:500], xml, fid))
                continue
            try:
                again = s.decode(elem, converter=conv, namespaces={"t": T, "xsi": XSI_NS})
            except Exception as e:      # noqa: BLE001
                out.append((name, f"decoding the re-encoded tree raised {type(e).__name__}: {e}"[:200], xml))
                continue
            if name != "dataelement" and strip_xmlns(again) != strip_xmlns(data):
                out.append((name, f"decode(encode(decode(x))) = {again!r} differs from decode(x) = {data!r}"[:500],
                            xml))
            # the JSON front end of the same converters: to_json / from_json
            if leafy and name != "dataelement":      # data elements are objects, not JSON data
                try:
                    js = xmlschema.to_json(xml, schema=s, converter=conv)
                    jelem = xmlschema.from_json(js, schema=s, converter=conv)
                except Exception as e:      # noqa: BLE001
                    out.append((name, f"to_json / from_json raised {type(e).__name__}: {str(e)[:160]}", xml))
                else:
                    trees.append((name, "json-roundtrip", abstract(jelem), xml))
                    if typed(jelem) != original:
                        fid = "F-C05-e" if (needs_contiguous and rec.get("runs")
                                            and nl_canon(typed(jelem)) == nl_canon(original)) else None
                        out.append((name, f"from_json(to_json(x)) differs from x: {typed(jelem)} vs {original}"[:500],
                                    xml, fid))
            # soundness of strict encoding under mutation
            if name in ("jsonml", "default", "badgerfish"):
                for k in range(nmut):
                    mdata, op = mutate(data, rng)
                    try:
                        melem = s.encode(mdata, converter=conv)
                    except xmlschema.XMLSchemaException:
                        continue
                    except (TypeError, AttributeError, KeyError, IndexError, ValueError) as e:
                        out.append((name, f"strict encode of mutated data ({op}) raised the foreign exception "
                                    f"{type(e).__name__}: {str(e)[:120]}; data {mdata!r}"[:500], xml, "F-C05-b"))
                        continue
                    except Exception as e:      # noqa: BLE001
                        out.append((name, f"strict encode of mutated data ({op}) raised the foreign exception "
                                    f"{type(e).__name__}: {str(e)[:120]}; data {mdata!r}"[:500], xml))
                        continue
                    if melem is None:
                        continue
                    trees.append((name, f"mutated:{op}:{json.dumps(mdata, default=str)[:300]}", abstract(melem), xml))
                # every scalar slot of the data replaced by every value of the catalogue
                if leafy and name in ("jsonml", "default"):
                    for n_slot in range(len(leaves(data))):
                        for v in RETYPE:
                            mdata = copy.deepcopy(data)
                            box, key = leaves(mdata)[n_slot]
                            if box[key] == v and type(box[key]) is type(v):
                                continue
                            box[key] = v
                            try:
                                melem = s.encode(mdata, converter=conv)
                            except xmlschema.XMLSchemaException:
                                continue
                            except (TypeError, AttributeError, KeyError, IndexError, ValueError) as e:
                                out.append((name, f"strict encode of data with slot {key!r} := {v!r} raised the foreign "
                                            f"exception {type(e).__name__}: {str(e)[:120]}; data {mdata!r}"[:500], xml,
                                            "F-C05-b"))
                                continue
                            except Exception as e:      # noqa: BLE001
                                out.append((name, f"strict encode of data with slot {key!r} := {v!r} raised the foreign "
                                            f"exception {type(e).__name__}: {str(e)[:120]}; data {mdata!r}"[:500], xml))
                                continue
                            if melem is not None:
                                trees.append((name, f"slot {key!r} := {v!r} in {json.dumps(data, default=str)[:240]}",
                                              abstract(melem), xml))
    return out, trees


def strip_xmlns(d):
    if isinstance(d, dict):
        return {k: strip_xmlns(v) for k, v in d.items() if "xmlns" not in str(k)}
    if isinstance(d, list):
        return [strip_xmlns(v) for v in d if not (isinstance(v, dict) and all("xmlns" in str(k) for k in v) and v)]
    return d


def run(ctx: Ctx):
    thorough = ctx.tier == "thorough"
    r = ctx.tlc("Converters", "Converters.cfg", constants={"MaxRecs": 1}, tag="A")
    recs = r.json_records()
    rng = random.Random(ctx.seed)
    if not thorough:        # a seeded sixth of the one-record documents
        rng.shuffle(recs)
        recs = recs[: len(recs) // 16]
    # a seeded sample of two-record documents
    two = [{"nodes": merge(a["nodes"], b["nodes"]), "contiguous": a["contiguous"] and b["contiguous"],
            "needs11": a.get("needs11") or b.get("needs11"), "runs": a.get("runs") or b.get("runs")}
           for a, b in (rng.sample(recs, 2) for _ in range(300 if thorough else 60))]

    docs = recs + two
    jobs = [(rec, i, ctx.seed * 65537 + i, 6 if thorough else 2, i % (5 if thorough else 40) == 0)
            for i, rec in enumerate(docs)]
    all_trees = []
    for bad, trees in ctx.pmap(judge, jobs):
        all_trees += trees
        for item in bad:
            name, what, xml = item[:3]
            ctx.report({"converter": name, "xml": xml, "observed": what}, f"{name}: {what[:300]}  [{xml[:200]}]",
                       finding=item[3] if len(item) > 3 else None)
    # the specification judges what encode() returned (each distinct tree once)
    distinct = sorted({json.dumps(t[2]) for t in all_trees})
    chunks = [distinct[i:i + 3000] for i in range(0, len(distinct), 3000)]

    def judge_chunk(i, chunk):
        path = ctx.work / f"trees_{i}.json"
        path.write_text("[" + ",".join(chunk) + "]")
        res = ctx.tlc("Judge_Converters", cfg_text="SPECIFICATION Spec\nCHECK_DEADLOCK FALSE\n",
                      constants={"MaxRecs": 0}, env={"TRACE_FILE": str(path)}, workers=1, tag=f"judge-{i}")
        v = [x for x in res.json_records() if "verdicts" in x]
        if not v or len(v[0]["verdicts"]) != len(chunk):
            raise MachineryError("the spec judge returned no verdict list")
        return v[0]["verdicts"]
    verdict_of = {}
    for chunk, vs in zip(chunks, ctx.parallel([(lambda i=i, c=c: judge_chunk(i, c)) for i, c in enumerate(chunks)],
                                              width=8)):
        verdict_of.update(zip(chunk, vs))
    verdicts = [verdict_of[json.dumps(t[2])] for t in all_trees]
    for (name, what, nodes, xml), ok in zip(all_trees, verdicts):
        if not ok:
            ctx.report({"converter": name, "phase": what, "tree": nodes, "xml": xml,
                        "observed": "strict encode returned a tree the specification rejects"},
                       f"{name} [{what[:200]}]: encode returned an invalid tree {render_nodes(nodes)[:300]}")
    ctx.impl_traces = len(all_trees)
    ctx.impl_replays = len(jobs)
    ctx.sample({"document": render(recs[len(recs) // 2]["nodes"])})
    ctx.sample({"judged_tree": all_trees[0][2][:4] if all_trees else None})
    ctx.evaluations = len(all_trees) + len(jobs)
    ctx.nontrivial = len(jobs)
    ctx.extra["distinct_trees_judged_by_tlc"] = len(distinct)
    ctx.rule = ("one-record documents of spec/Converters.tla (78 732: an element whose XSD 1.1 type alternative reads a boolean attribute, boolean / union-with-pattern attributes, 0-2 "
                "list-valued children, union-with-pattern / nillable / empty-with-attribute / simple-content / mixed "
                "children, 9 interleavings of a/b children; a seeded fourteenth in the quick tier) plus a seeded sample of "
                "two-record documents x lossless conventions; seeded mutations of the decoded data (drop, duplicate, "
                "retype, reorder) and, for every 40th (5th) document, every scalar slot x a catalogue of 19 values, "
                "encoded in strict mode; every returned tree is judged by the specification's Valid (TLC batch)")
    ctx.assumptions += ["default / BadgerFish / GData are exercised only on documents whose same-named children "
                        "are contiguous", "mixed-content text is compared whitespace-normalised",
                        "prefix layouts are non-shadowing (C17's domain is excluded here)"]


def merge(a, b):
    out = [a[0]] + a[1:]
    for n in b[1:]:
        m = dict(n)
        m["path"] = [2] + n["path"][1:]
        out.append(m)
    return out


def render_nodes(nodes):
    return " ".join(f"{'/'.join(map(str, n['path']))}:{n['name']}={n['text']}" for n in nodes)


def replay(ctx: Ctx, case):
    ctx.report(case, case["observed"])
    ctx.states = ctx.transitions = 1
