"""C06 - lazy (streaming) processing gives the same results as full loading.

Spec: spec/Lazy.tla - the streaming machine (start / end events, hand-out of complete depth-D
subtrees, clearing, thin mode); TLC checks on every document shape that everything at depth D is
handed out once, in document order, complete, that namespace maps live exactly as long as their
nodes, and that open elements are never detached.  B: documents whose document-wide constraints span
the streamed chunks (Identity documents with the constraints declared on the root, ID/IDREF across
scope elements), single-fault Validator documents, Namespaces documents and pool documents are
processed fully loaded and through XMLResource(lazy=1, thin_lazy on/off): verdict, ordered errors,
decoded data (nested lazy generators materialised in document order) and the element / text /
attribute / in-scope-namespace sequences of iter(), iter_depth() and iterfind() must be equal.
Depths 2 and 3 are explored and reported in the evidence, not judged (the property claims depth 1).
"""
from __future__ import annotations

from harness.core import stable
import json
import types
import warnings
import xml.etree.ElementTree as ET

from harness import cm, pool, vdoc
from harness.core import Ctx, MachineryError
from checks import c08, c17


def materialise(x):
    if isinstance(x, types.GeneratorType):
        return [materialise(v) for v in x]
    if isinstance(x, dict):
        return {k: materialise(v) for k, v in x.items()}
    if isinstance(x, (list, tuple)):
        return [materialise(v) for v in x]
    return x


def flatten_lazy(data):
    """Lazy decoding yields, for each depth-1 child, a generator over the decoded chunk(s): the list of
    generators is shared, so materialise in document order and unwrap single results."""
    return materialise(data)


def errors_of(schema, src):
    """(path, reason); the path in expanded-name form: a prefix that is declared below the root is written as a
    prefix when the path is computed inside that scope (lazy) and in Clark notation when it is computed afterwards
    with the root's map (fully loaded): the same node either way."""
    from checks import c04
    return [(c04.expand(e.path or ""), stable(e.reason)[:140]) for e in schema.iter_errors(src)]


def has_inner_keyref(xsd):
    """Does the schema declare an xs:keyref on an element other than a global one (below the root)?"""
    import xml.etree.ElementTree as ET
    root = ET.fromstring(xsd)
    xs = "{http://www.w3.org/2001/XMLSchema}"
    top = set(root.findall(xs + "element"))
    return any(k for e in root.iter(xs + "element") if e not in top for k in e.findall(xs + "keyref"))


IDENT_MARKS = ("not found for Xsd", "duplicated value", "missing key field")


UNDECLARED = ("{urn:X}wrap", "{urn:X}unk")      # elements of the Validator documents that have no declaration


def inside_undeclared(path, depth):
    """The error is located strictly inside a streamed element (at depth + 1 steps) that no declaration matches: with
    such an element skipped (F-C06-h) nothing below it is assessed either."""
    steps = path.strip("/").split("/")
    return len(steps) > depth + 1 and steps[depth].split("[")[0] in UNDECLARED


def compare_errors(l_errors, e_errors, depth, inner_keyref=False, padded=False):
    """-> None | (kind, finding id).  F-C06-e: the errors of the elements ABOVE the streamed depth (the root's
    attributes with lazy=1) are reported after the errors of the chunks instead of before them; the two
    subsequences (above / inside the chunks) are each in the fully loaded order."""
    if l_errors == e_errors:
        return None
    # F-C06-k: a large document: the path of an error in an early chunk is computed while the later siblings of
    # its ancestors are not parsed yet, so the positional index [1] of the first of several siblings is missing
    if padded and [(p.replace("[1]", ""), r) for p, r in l_errors] == [(p.replace("[1]", ""), r) for p, r in e_errors]:
        return "errors", "F-C06-k"
    if sorted(l_errors) != sorted(e_errors):
        # F-C06-f: key references of a constraint declared BELOW the root, lazy depth >= 2: lost or
        # reported at the root; everything else is reported identically
        def rest(errs):
            return [x for x in errs if "not found for Xsd" not in x[1]]
        if depth >= 2 and inner_keyref and rest(l_errors) == rest(e_errors):
            return "errors", "F-C06-f"
        # F-C06-j: a document larger than the parser's read-ahead: the rows of a constraint declared on an
        # ANCESTOR of the streamed elements that are parsed after the first selection are never counted
        if padded and [(x[0].replace("[1]", ""), x[1]) for x in l_errors if not any(m in x[1] for m in IDENT_MARKS)] == \
                [(x[0].replace("[1]", ""), x[1]) for x in e_errors if not any(m in x[1] for m in IDENT_MARKS)]:
            return "errors", "F-C06-j"
        # F-C06-h: a streamed element that no declaration matches (admitted by a strict wildcard of its
        # parent) is skipped silently: the 'element not found' error located at it is missing, nothing else
        missing = list(e_errors)
        for x in l_errors:
            if x in missing:
                missing.remove(x)
            else:
                return "errors", None
        if missing and all((x[0].count("/") == depth + 1 and "' not found" in x[1] and x[1].startswith("element "))
                           or inside_undeclared(x[0], depth) for x in missing):
            return "errors", "F-C06-h"
        return "errors", None

    def above(x):
        return x[0].count("/") <= depth
    if [x for x in l_errors if above(x)] == [x for x in e_errors if above(x)] and \
            [x for x in l_errors if not above(x)] == [x for x in e_errors if not above(x)]:
        return "errors-order", "F-C06-e"
    return "errors-order", None


def snapshot(e, nsmap):
    return (e.tag, (e.text or "").strip(), tuple(sorted(e.attrib.items())),
            tuple(sorted((nsmap or {}).items())))


def eager_sequences(xml):
    import xmlschema
    res = xmlschema.XMLResource(xml)
    allnodes = [snapshot(e, res.get_nsmap(e)) for e in res.iter()]
    depth1 = [snapshot(e, res.get_nsmap(e)) for e in res.root]
    return allnodes, depth1


def lazy_sequences(xml, thin):
    import xmlschema
    res = xmlschema.XMLResource(xml, lazy=1, thin_lazy=thin)
    it = []
    for e in res.iter():
        it.append(snapshot(e, res.get_nsmap(e)))
    res = xmlschema.XMLResource(xml, lazy=1, thin_lazy=thin)
    d1 = [snapshot(e, res.get_nsmap(e)) for e in res.iter_depth()]
    res = xmlschema.XMLResource(xml, lazy=1, thin_lazy=thin)
    f1 = [snapshot(e, res.get_nsmap(e)) for e in res.iterfind("*")]
    return it, d1, f1


def judge(job):
    xsds, xml, about, depths = job
    import xmlschema
    out = []
    explored = {}
    with warnings.catch_warnings():
        warnings.simplefilter("ignore")
        schema = xmlschema.XMLSchema(list(xsds) if len(xsds) > 1 else xsds[0])
    try:
        e_valid = schema.is_valid(xml)
        e_errors = errors_of(schema, xml)
        e_data, e_derrs = schema.decode(xml, validation="lax")
        e_derrs = sorted(stable(e.reason)[:140] for e in e_derrs)
        e_all, e_d1 = eager_sequences(xml)
    except Exception as e:      # noqa: BLE001
        return [(about, "eager", f"raised {type(e).__name__}: {e}"[:200], None)], explored
    for thin in (True, False):
        tag = f"lazy=1 thin={thin}"
        try:
            l_valid = schema.is_valid(xmlschema.XMLResource(xml, lazy=1, thin_lazy=thin))
            l_errors = errors_of(schema, xmlschema.XMLResource(xml, lazy=1, thin_lazy=thin))
            l_raw, l_derrs = schema.decode(xmlschema.XMLResource(xml, lazy=1, thin_lazy=thin), validation="lax")
            l_data = flatten_lazy(l_raw)
            inline = []

            def walk(x):
                if isinstance(x, Exception):
                    inline.append(x)
                elif isinstance(x, dict):
                    for v in x.values():
                        walk(v)
                elif isinstance(x, list):
                    for v in x:
                        walk(v)
            walk(l_data)
            l_derrs = sorted(stable(e.reason)[:140] for e in list(l_derrs) + inline)
            l_it, l_d1, l_f1 = lazy_sequences(xml, thin)
        except Exception as e:      # noqa: BLE001
            out.append((about, tag, f"raised {type(e).__name__}: {e}"[:200], None))
            continue
        if l_valid != e_valid:
            c0 = compare_errors(l_errors, e_errors, 1, padded=about.startswith("identity-padded"))
            out.append((about, tag, f"is_valid={l_valid}, fully loaded: {e_valid}", None,
                        c0[1] if c0 and c0[1] in ("F-C06-j", "F-C06-h") and l_valid == (not l_errors) else None))
        cmp = compare_errors(l_errors, e_errors, 1, padded=about.startswith("identity-padded"))
        if cmp:
            out.append((about, tag, f"errors {l_errors} vs fully loaded {e_errors}"[:900], cmp[0], cmp[1]))
        if l_derrs != e_derrs:
            missing, extra = list(e_derrs), []
            for x in l_derrs:
                if x in missing:
                    missing.remove(x)
                else:
                    extra.append(x)
            fid = None
            if not extra and missing and all(any(m in x for m in IDENT_MARKS) for x in missing):
                fid = "F-C06-n"     # constraints declared above the streamed depth are not evaluated by lazy DECODING
            elif not missing and all("is not an element of the schema" in x for x in extra):
                fid = "F-C06-o"     # an undeclared streamed element gets an additional error of its own
            elif "x:wrap" in xml and all("is not an element of the schema" in x for x in extra) and \
                    missing == ["invalid literal for int() with base 10: 'x'"]:
                fid = "F-C06-h"     # ... and what is inside it (x:num under the undeclared x:wrap) is not assessed
            out.append((about, tag, f"lax decoding reports {l_derrs}, fully loaded: {e_derrs}"[:700], "decode-errors",
                        fid))
        if not same_data(l_data, e_data):
            out.append((about, tag, f"decoded data {l_data!r} vs fully loaded {e_data!r}"[:600], "data",
                        known("data", "", about, l_data, e_data)))
        # iteration: same elements / text / attributes / in-scope namespaces
        if sorted(map(repr, l_it)) != sorted(map(repr, e_all)):
            out.append((about, tag, f"iter() yields a different set of elements: {l_it} vs {e_all}"[:600], "iter-set"))
        elif [x for x in l_it] != [x for x in e_all]:
            out.append((about, tag, f"iter() order {[x[0] for x in l_it]} vs document order "
                        f"{[x[0] for x in e_all]}"[:600], "iter-order", "F-C06-b"))
        if l_d1 != e_d1:
            out.append((about, tag, f"iter_depth() {l_d1} vs children of the loaded root {e_d1}"[:600], "iter-depth"))
        if l_f1 != e_d1:
            out.append((about, tag, f"iterfind('*') {l_f1} vs children of the loaded root {e_d1}"[:600], "iterfind"))
    for d in depths:
        tag = f"lazy={d}"
        try:
            lv = schema.is_valid(xmlschema.XMLResource(xml, lazy=d))
            le = errors_of(schema, xmlschema.XMLResource(xml, lazy=d))
        except Exception as e:      # noqa: BLE001
            out.append((about, tag, f"raised {type(e).__name__}: {e}"[:200], None))
            continue
        explored[d] = "same" if le == e_errors else ("same-set" if sorted(le) == sorted(e_errors) else "differs")
        cmp = compare_errors(le, e_errors, d, inner_keyref=has_inner_keyref(xsds[0]),
                             padded=about.startswith("identity-padded"))
        if lv != e_valid:
            out.append((about, tag, f"is_valid={lv}, fully loaded: {e_valid}", None,
                        cmp[1] if cmp and cmp[1] in ("F-C06-f", "F-C06-h", "F-C06-j") and lv == (not le) else None))
        if cmp:
            out.append((about, tag, f"errors {le} vs fully loaded {e_errors}"[:900], cmp[0], cmp[1]))
    return out, explored


def same_data(lazy, eager):
    """The lazy decoder fills each streamed child with a generator over the decoded chunks (the SAME
    generator for every child of that level: the first one yields everything) and, in lax mode, yields
    the chunk's errors inline.  After materialisation: drop the error objects, flatten the nested lists,
    and treat a one-element list like the single value a fully loaded document decodes to."""
    def norm(x):
        if isinstance(x, dict):
            return {k: norm(v) for k, v in x.items()}
        if isinstance(x, list):
            flat = []
            for v in x:
                if isinstance(v, Exception):
                    continue
                v = norm(v)
                if isinstance(v, list):
                    flat.extend(v)
                else:
                    flat.append(v)
            return flat
        return x

    def single(x):
        if isinstance(x, dict):
            return {k: single(v) for k, v in x.items()}
        if isinstance(x, list):
            y = [single(v) for v in x]
            return y[0] if len(y) == 1 else y
        return x
    a, b = norm(lazy), norm(eager)
    if single(a) == single(b):
        return True
    # the streamed chunks of differently named children all come out of the first child's generator:
    # compare the root's attributes and the chunk values as a multiset
    if not (isinstance(a, dict) and isinstance(b, dict)):
        return False

    def split(d):
        attrs = {k: v for k, v in d.items() if k.startswith("@") or k == "$"}
        vals = []
        for k, v in d.items():
            if not (k.startswith("@") or k == "$"):
                vals += v if isinstance(v, list) else [v]
        return attrs, sorted(repr(single(x)) for x in vals)
    return split(a) == split(b)


def strip_inner_xmlns(d, depth=0):
    if isinstance(d, dict):
        return {k: strip_inner_xmlns(v, depth + 1) for k, v in d.items()
                if not (depth >= 1 and str(k).startswith("@xmlns"))}
    if isinstance(d, list):
        return [strip_inner_xmlns(v, depth) for v in d]
    return d


def known(kind, what, about="", lazy=None, eager=None):
    """F-C06-b: iter() of a lazy resource yields the descendants below the lazy depth in reversed sibling
    order (the repository's own test asserts that the order differs from the loaded tree's).
    F-C06-c: lazy decoding drops the children that an element wildcard admits at the streamed depth."""
    if kind == "iter-order":
        return "F-C06-b"
    # F-C06-m: the streamed chunks are decoded without the xmlns declarations written on them
    if kind == "data" and isinstance(eager, dict) and isinstance(lazy, dict) \
            and strip_inner_xmlns(eager) != eager and same_data(lazy, strip_inner_xmlns(eager)):
        return "F-C06-m"
    # F-C06-h (second manifestation): the undeclared wrapper x:wrap of a lax wildcard is skipped at the streamed depth:
    # the lazy data lack it (and the xmlns declarations written on it); everything else is the same
    if kind == "data" and isinstance(eager, dict) and isinstance(lazy, dict) and "x:wrap" in eager:
        cut = {k: v for k, v in eager.items() if k != "x:wrap"}
        if same_data(lazy, cut) or same_data(lazy, strip_inner_xmlns(cut)):
            return "F-C06-h"
    if kind == "data" and about.startswith("namespaces") and isinstance(eager, dict):
        def attrs(d):
            return {k: v for k, v in (d or {}).items() if k.startswith("@") and not k.startswith("@xmlns")}
        if (lazy is None or isinstance(lazy, dict)) and attrs(lazy) == attrs(eager) \
                and not any(not k.startswith("@") for k in (lazy or {})):
            return "F-C06-c"
    return None


def shallow_xsd(xsd):
    a = "</xs:choice></xs:complexType></xs:element></xs:sequence>"
    b = '<xs:selector xpath="t:s/t:f"/>'
    if xsd.count(a) != 1 or xsd.count(b) != 1:
        raise MachineryError("shallow_xsd: the identity schema changed its shape")
    return xsd.replace(a, a[:-len("</xs:sequence>")] + '<xs:element name="f" type="t:row" minOccurs="0" '
                       'maxOccurs="unbounded"/></xs:sequence>').replace(b, '<xs:selector xpath="t:s/t:f|t:f"/>')


def shallow_xml(xml):
    import re
    rows = re.findall(r"<t:f[^>]*/>", xml)
    return re.sub(r"<t:f[^>]*/>", "", xml).replace("</t:r>", "".join(rows) + "</t:r>")


def documents(ctx: Ctx, thorough):
    docs = []
    # identity documents, constraints declared on the root (they span the streamed chunks)
    # ... and on the intermediate element (they live inside one chunk with lazy=1 and span chunks with lazy=2)
    for kind, level in (("key", "outer"), ("unique", "outer"), ("key", "inner")):
        consts = {"NF": 1, "KeyKind": f'"{kind}"', "Level": f'"{level}"', "MaxRows": 3, "MaxScopes": 2,
                  "RowKinds": '{"k", "f", "i", "p"}', "IdVer": '"1.0"'}
        r = ctx.tlc("Identity", "Identity.cfg", constants=consts, tag=f"docs-{kind}-{level}", workers=4)
        recs = [x for x in r.json_records() if c08.canonical(x)]
        step = 1 if thorough else 4
        for rec in recs[::step]:
            docs.append(((c08.schema_xsd(1, kind, level, "integer", "attr", "child"),),
                         c08.doc_xml(rec["doc"], "integer", "attr"), f"identity/{kind}/{level} {rec['doc']}"))
    # ... and with the key references as SHALLOW leaves: the f rows directly under the root, above the streamed depth
    # of lazy=2 (they are validated with the pruned root), the keys inside the chunks - the verdict of a root-level
    # constraint does not depend on where in its scope a selected row stands (Identity.tla, Level "outer")
    for d in [x for x in docs if x[2].startswith(("identity/key/outer", "identity/unique/outer"))][:: (2 if thorough else 5)]:
        docs.append((tuple(shallow_xsd(x) for x in d[0]), shallow_xml(d[1]), "identity-shallow" + d[2][8:]))
    # the same kind of document, LARGER than the parser's read-ahead: 70 000 characters of comment between the scopes
    pad = "<!--" + "x" * 70000 + "-->"
    for d in [x for x in docs if x[2].startswith("identity/key/outer")][:: (3 if thorough else 25)]:
        docs.append((d[0], d[1].replace("</t:s><t:s>", "</t:s>" + pad + "<t:s>", 1), "identity-padded" + d[2][8:]))
    r = ctx.tlc("Validator", "Validator.cfg", constants={"MaxItems": 2, "Double": "FALSE"}, tag="docs-validator", workers=4)
    for rec in r.json_records()[:: (2 if thorough else 9)]:
        docs.append(((vdoc.XSD,), vdoc.render(rec["nodes"], decl_on_item=(len(docs) % 2 == 0)),
                     f"validator {rec['fault']}"))
    r = ctx.tlc("Namespaces", "Namespaces.cfg", tag="docs-ns", workers=4,
                constants={"Variant": '"sound"', "MaxDepth": 3, "MaxElems": 3, "MaxDecls": 1, "Family": '"all"'})
    nsdocs = list({json.dumps(x["doc"], sort_keys=True): x["doc"] for x in r.json_records()}.values())
    xs = (c17.xsd("urn:A"), c17.xsd("urn:B"), c17.xsd(""))
    # ... and deeper documents that re-bind one prefix on several levels and CLOSE such scopes before later
    # siblings (the in-scope namespaces of what follows a closed scope)
    r2 = ctx.tlc("Namespaces", "Namespaces.cfg", tag="docs-ns-ponly", workers=4,
                 constants={"Variant": '"sound"', "MaxDepth": 3, "MaxElems": 4, "MaxDecls": 1, "Family": '"ponly"'})
    deep = list({json.dumps(x["doc"], sort_keys=True): x["doc"] for x in r2.json_records()}.values())
    nsdocs = nsdocs[:: (40 if thorough else 300)] + deep[:: (7 if thorough else 60)]
    for i, d in enumerate(nsdocs):
        xml, names = c17.render(d, i)
        # the multi-namespace schema's main namespace must be the root's
        order = {"{urn:A}e": (xs[0], xs[1], xs[2]), "{urn:B}e": (xs[1], xs[0], xs[2]), "e": (xs[2], xs[0], xs[1])}
        docs.append((order[names[0][0]], xml, f"namespaces {xml}"))
    for c in pool.build_pool(ctx, scale=4)[:: (3 if thorough else 12)]:
        docs.append((tuple(c["xsds"]), c["xml"], c["about"]))
    return docs


def run(ctx: Ctx):
    thorough = ctx.tier == "thorough"
    for d, thin in ((1, "TRUE"), (1, "FALSE"), (2, "TRUE")):
        ctx.tlc("Lazy", "Lazy.cfg", workers=4, tag=f"A-{d}-{thin}",
                constants={"D": d, "Thin": thin, "MaxLen": 7 if thorough else 6, "MaxDepth": 9, "MaxElems": 99,
                           "LazyMode": "TRUE"})
    docs = documents(ctx, thorough)
    jobs = [(x, xml, about, (2, 3)) for x, xml, about in docs]
    deeper = {2: {}, 3: {}}
    total = 0
    for (x, xml, about, _), (bad, explored) in zip(jobs, ctx.pmap(judge, jobs)):
        total += 1
        for d, v in explored.items():
            deeper[d][v] = deeper[d].get(v, 0) + 1
        for item in bad:
            ab, tag, what, kind = item[:4]
            finding = item[4] if len(item) > 4 else None
            ctx.report({"about": ab, "mode": tag, "xml": xml, "xsds": list(x), "kind": kind, "observed": what},
                       f"{tag} {ab[:80]}: {what[:300]}", finding=finding)
    ctx.sample({"document": docs[0][1]})
    ctx.sample({"document": docs[len(docs) // 2][1]})
    ctx.impl_replays = ctx.evaluations = total * 2
    ctx.nontrivial = total
    ctx.extra["deeper_lazy_depths"] = deeper
    ctx.rule = ("documents: identity documents with root-level key/unique/keyref and ID/IDREF spanning the "
                "streamed chunks (TLC, Identity.tla), single-fault documents (Validator.tla), prefix-redeclaring "
                "documents (Namespaces.tla), pool documents; each fully loaded vs lazy depth 1 x thin on/off: "
                "verdict, ordered errors, data, iter / iter_depth / iterfind sequences incl. in-scope namespaces")
    ctx.assumptions += ["lazy depth 1 is judged on verdict, errors, data and iteration; depths 2-3 on verdict and errors",
                        "decoded data is compared after materialising the lazy decoder's nested generators in "
                        "document order"]


def replay(ctx: Ctx, case):
    bad, _ = judge((tuple(case["xsds"]), case["xml"], case["about"], ()))
    for item in bad:
        ab, tag, what, kind = item[:4]
        if tag == case["mode"] and kind == case["kind"]:
            ctx.report(dict(case, observed=what), what[:300], finding=item[4] if len(item) > 4 else None)
    ctx.states = max(1, ctx.states)
    ctx.transitions = max(1, ctx.transitions)
