"""C03 - attribute sets are validated per declared uses, value constraints and wildcards.

Spec: spec/Attributes.tla (clause text of Element Locally Valid (Complex Type) 3-4, Attribute
Locally Valid (Use), wildcard processContents).  A: TLC checks monotonicity laws over the whole
declaration space (wider wildcard / weaker processContents admit more; tighter uses narrow).
B: every (declaration pair, wildcard, attribute set) TLC enumerates is rendered - the same abstract
declarations inline, through an attribute group, through nested attribute groups and with a global
attribute reference - and judged on XMLSchema10 and XMLSchema11: verdict, errors non-empty when
invalid, and for valid elements the decoded attribute dictionary with use_defaults on and off and with
fill_missing on and off.
"""
from __future__ import annotations

import collections
import json
import warnings

from harness import cm
from harness.core import Ctx, MachineryError

VAL = {"v1": "1", "v01": "01", "v2": "2", "vx": "x"}
WC = {"any": "##any", "other": "##other", "local": "##local", "tns": "##targetNamespace"}
XSD_A = ('<xs:schema xmlns:xs="http://www.w3.org/2001/XMLSchema" targetNamespace="urn:A">'
         '<xs:attribute name="x" type="xs:integer"/></xs:schema>')


def attr_decl(name, d, variant):
    """variant % 4: inline / global ref / attribute group / nested groups;  variant >= 4: the schema says
    attributeFormDefault="qualified", so x carries an explicit form="unqualified" and y relies on the default."""
    if d["use"] == "none":
        return ""
    qdef = variant % 8 >= 4
    base = variant % 4
    vc = {"none": "", "fixed": ' fixed="1"', "default": ' default="1"'}[d["vc"]]
    use = "" if d["use"] == "optional" and base % 2 else f' use="{d["use"]}"'
    if name == "x":
        form = ' form="unqualified"' if qdef else ""
        return f'<xs:attribute name="x"{form} type="xs:integer"{use}{vc}/>'
    if base in (1, 3):        # reference to the global attribute t:y
        return f'<xs:attribute ref="t:y"{use}{vc}/>'
    form = "" if qdef else ' form="qualified"'
    return f'<xs:attribute name="y"{form} type="xs:integer"{use}{vc}/>'


def schema_xsd(d0, dT, w, variant):
    a0, aT = attr_decl("x", d0, variant), attr_decl("y", dT, variant)
    base = variant % 4
    wild = "" if w["c"] == "none" else \
        f'<xs:anyAttribute namespace="{WC[w["c"]]}" processContents="{w["pc"]}"/>'
    groups = ""
    if base == 0 or base == 1:
        body = a0 + aT + wild
    elif base == 2:           # one attribute group holding the declarations, wildcard local
        groups = f'<xs:attributeGroup name="g1">{a0}{aT}</xs:attributeGroup>'
        body = '<xs:attributeGroup ref="t:g1"/>' + wild
    else:                        # nested groups; the wildcard sits in the inner group
        groups = (f'<xs:attributeGroup name="g2">{aT}{wild}</xs:attributeGroup>'
                  f'<xs:attributeGroup name="g1">{a0}<xs:attributeGroup ref="t:g2"/></xs:attributeGroup>')
        body = '<xs:attributeGroup ref="t:g1"/>'
    afd = ' attributeFormDefault="qualified"' if variant % 8 >= 4 else ""
    if variant >= 8:
        # the same declarations as a RESTRICTION of a base type that has nothing but the widest wildcard (##any, skip):
        # the uses and the wildcard of the restriction are the effective ones (spec/AttrRestriction.tla, Eff)
        ct = ('<xs:complexType name="B"><xs:anyAttribute namespace="##any" processContents="skip"/></xs:complexType>'
              f'<xs:complexType name="CT"><xs:complexContent><xs:restriction base="t:B">{body}</xs:restriction>'
              '</xs:complexContent></xs:complexType>')
    else:
        ct = f'<xs:complexType name="CT">{body}</xs:complexType>'
    return (f'<xs:schema xmlns:xs="{cm.XS}" targetNamespace="urn:T" xmlns:t="urn:T" '
            f'elementFormDefault="qualified"{afd}><xs:import namespace="urn:A"/>'
            f'<xs:attribute name="y" type="xs:integer"/>{groups}{ct}'
            f'<xs:element name="e" type="t:CT"/><xs:element name="u" type="xs:anyType"/><xs:element name="v"/>'
            f'</xs:schema>')


def instance_xml(inst, mode="e"):
    """mode: "e" the element with the declarations; "u-complex" / "v-complex": an element declared xs:anyType / without
    a type, retyped to that complex type by xsi:type; "u-simple" / "v-simple": retyped to xs:int; "u-any": as declared."""
    at = ""
    for n, attr in (("n0", "x"), ("nT", "t:y"), ("nA", "a:x"), ("nF", "f:x"), ("nU", "t:u")):
        if inst[n] != "absent":
            at += f' {attr}="{VAL[inst[n]]}"'
    ns = 'xmlns:t="urn:T" xmlns:a="urn:A" xmlns:f="urn:F"'
    if mode == "e":
        return f'<t:e {ns}{at}/>'
    xsi = f'xmlns:xsi="http://www.w3.org/2001/XMLSchema-instance" xmlns:xs="{cm.XS}"'
    name = mode[0]
    if mode.endswith("-complex"):
        return f'<t:{name} {ns} {xsi} xsi:type="t:CT"{at}/>'
    if mode.endswith("-simple"):
        return f'<t:{name} {ns} {xsi} xsi:type="xs:int"{at}>5</t:{name}>'
    return f'<t:{name} {ns}{at}/>'


KEY = {"n0": "@x", "nT": "@t:y", "nA": "@a:x", "nF": "@f:x", "nU": "@t:u"}


def expected_dict(dec):
    out = {}
    for n, v in dec:
        out[KEY[n]] = None if v == "null" else {"int1": 1, "int2": 2}.get(v, VAL.get(v))
    return out


def build(ver, xsd):
    import xmlschema
    cls = cm.schema_class(ver)
    with warnings.catch_warnings():
        warnings.simplefilter("ignore")
        try:
            return cls([xsd, XSD_A]), None
        except xmlschema.XMLSchemaException as e:
            return None, e


def known(rec, direction):
    """F-C03-a: a prohibited attribute that is present and admitted by the wildcard is still
    validated against the prohibited declaration's type."""
    from_prohibited = []
    for slot, n, ns in (("d0", "n0", ""), ("dT", "nT", "T")):
        d, w = rec[slot], rec["w"]
        if d["use"] == "prohibited" and rec["inst"][n] != "absent" and w["c"] != "none":
            adm = {"any": True, "other": ns not in ("", "T"), "local": ns == "", "tns": ns == "T"}[w["c"]]
            if adm:
                from_prohibited.append((n, rec["inst"][n]))
    if direction == "rejects-valid" and any(v == "vx" for _, v in from_prohibited):
        return "F-C03-a"
    if direction == "accepts-invalid" and from_prohibited and rec["w"]["pc"] == "strict" \
            and any(n == "n0" and v != "vx" for n, v in from_prohibited):
        return "F-C03-a"        # the prohibited declaration stands in for the missing global one
    if direction == "decoded" and from_prohibited:
        return "F-C03-a"
    return None


def judge(job):
    (d0, dT, w), recs, variant = job
    out = []
    n = 0
    xsd = schema_xsd(d0, dT, w, variant)
    for ver in ("1.0", "1.1"):
        s, err = build(ver, xsd)
        if s is None:
            out.append((ver, None, f"schema refused: {type(err).__name__}: {str(err)[:160]}", "build"))
            continue
        for rec in recs:
            xml = instance_xml(rec["inst"])
            n += 1
            try:
                got = s.is_valid(xml)
                if not got and not list(s.iter_errors(xml)):
                    out.append((ver, rec, "rejected but iter_errors yields nothing", "noerror"))
                    continue
            except Exception as e:      # noqa: BLE001
                out.append((ver, rec, f"raised {type(e).__name__}: {e}"[:200], "raise"))
                continue
            if got != rec["valid"]:
                out.append((ver, rec, f"is_valid={got}, spec says {rec['valid']}",
                            "accepts-invalid" if got else "rejects-valid"))
                continue
            # the governing type decides: xsi:type to the same complex type / to a simple type, xs:anyType itself
            stop = False
            for mode, want in (("u-complex", rec["valid"]), ("v-complex", rec["valid"]),
                               ("u-simple", rec["vsimple"]), ("v-simple", rec["vsimple"]), ("u-any", rec["vany"])):
                xm = instance_xml(rec["inst"], mode)
                n += 1
                try:
                    gm = s.is_valid(xm)
                    em = [] if gm else list(s.iter_errors(xm))
                except Exception as e:      # noqa: BLE001
                    out.append((ver, rec, f"{mode}: raised {type(e).__name__}: {e}"[:200], "raise"))
                    stop = True
                    break
                if gm != want or (not gm and not em):
                    out.append((ver, rec, f"{mode}: is_valid={gm}, spec says {want}  [{xm}]",
                                ("accepts-invalid" if gm else "rejects-valid") if mode.endswith("complex") else "governing"))
                    stop = True
                    break
            if stop:
                continue
            if not got:
                continue
            prohibited = {KEY[n] for n, d in (("n0", d0), ("nT", dT)) if d["use"] == "prohibited"}
            for flag, fill, key in ((True, False, "dec1"), (False, False, "dec0"),
                                    (True, True, "dec1f"), (False, True, "dec0f")):
                try:
                    data = s.decode(xml, use_defaults=flag, fill_missing=fill)
                except Exception as e:      # noqa: BLE001
                    out.append((ver, rec, f"decode raised {type(e).__name__}: {e}"[:200], "raise"))
                    break
                gotd = {k: v for k, v in (data or {}).items() if k.startswith("@") and
                        not k.startswith("@xmlns")} if isinstance(data, dict) else {}
                if fill:        # a null entry for a PROHIBITED declaration is not judged (it is no attribute use)
                    gotd = {k: v for k, v in gotd.items() if not (k in prohibited and v is None)}
                want = expected_dict(rec[key])
                if gotd != want:
                    out.append((ver, rec, f"decoded attributes (use_defaults={flag}, fill_missing={fill}) {gotd}, "
                                f"spec expects {want}", "decoded"))
                    break
    return out, n


def run(ctx: Ctx):
    thorough = ctx.tier == "thorough"
    r = ctx.tlc("Attributes", "Attributes.cfg", constants={"Small": "FALSE" if thorough else "TRUE"},
                tag="enum", timeout=3000)
    by = collections.defaultdict(list)
    for rec in r.json_records():
        by[json.dumps([rec["d0"], rec["dT"], rec["w"]], sort_keys=True)].append(rec)
    jobs = [(tuple(json.loads(k)), recs, i % 16) for i, (k, recs) in enumerate(sorted(by.items()))]
    res = ctx.pmap(judge, jobs)
    total = 0
    for ((d0, dT, w), recs, variant), (bad, n) in zip(jobs, res):
        total += n
        for ver, rec, what, direction in bad:
            case = {"ver": ver, "d0": d0, "dT": dT, "w": w, "variant": variant,
                    "inst": rec["inst"] if rec else None, "spec": rec,
                    "xsd": schema_xsd(d0, dT, w, variant),
                    "xml": instance_xml(rec["inst"]) if rec else None, "observed": what}
            ctx.report(case, f"{ver} v{variant}: {what}; decls x={d0} y={dT} wildcard={w} "
                             f"attrs={rec['inst'] if rec else None}"[:420],
                       finding=known(rec, direction) if rec else None)
    ctx.sample({"d0": jobs[7][0][0], "dT": jobs[7][0][1], "wildcard": jobs[7][0][2],
                "xsd": schema_xsd(*jobs[7][0], jobs[7][2]), "instances": len(jobs[7][1])})
    ctx.impl_replays = ctx.evaluations = ctx.nontrivial = total
    ctx.exhaustive = True
    ctx.rule = ("every pair of declaration slots (7 x 7: absent / optional, required, prohibited x "
                "none, fixed, default) x wildcard (none or 4 constraints x strict/lax/skip) x attribute "
                "set over {unqualified, target, declared-foreign, unknown} x value classes, as "
                "enumerated by TLC from spec/Attributes.tla; rendering variant rotates with the "
                "declaration index (inline, global ref, attribute group, nested groups; each with and without attributeFormDefault=qualified + explicit form=unqualified; each directly or as a restriction of a base type with the widest wildcard); every attribute set also on an element declared xs:anyType / without type that xsi:type retypes to that complex type or to xs:int, and on xs:anyType itself; both classes")
    ctx.assumptions += ["all attributes are xs:integer; value constraints are '1'; '01' is the same "
                        "value in another lexical form", "xsi:* attributes other than xsi:type are not in the universe"]
    ctx.extra["declaration_sets"] = len(jobs)


def replay(ctx: Ctx, case):
    rec = case["spec"]
    bad, _ = judge(((case["d0"], case["dT"], case["w"]), [rec], case["variant"]))
    for ver, r, what, direction in bad:
        if ver == case["ver"]:
            ctx.report(dict(case, observed=what), what, finding=known(r, direction) if r else None)
    ctx.states = ctx.transitions = 1
