import xmlschema, sys, os, tempfile, subprocess
# C08 keyref partial / unique partial
xsd = '''<xs:schema xmlns:xs="http://www.w3.org/2001/XMLSchema">
<xs:element name="root"><xs:complexType><xs:sequence>
 <xs:element name="k" maxOccurs="unbounded" minOccurs="0"><xs:complexType><xs:attribute name="a" type="xs:integer"/><xs:attribute name="b" type="xs:integer"/></xs:complexType></xs:element>
 <xs:element name="r" maxOccurs="unbounded" minOccurs="0"><xs:complexType><xs:attribute name="a" type="xs:integer"/><xs:attribute name="b" type="xs:integer"/></xs:complexType></xs:element>
 <xs:element name="u" maxOccurs="unbounded" minOccurs="0"><xs:complexType><xs:attribute name="a" type="xs:integer"/><xs:attribute name="b" type="xs:integer"/></xs:complexType></xs:element>
</xs:sequence></xs:complexType>
<xs:key name="K"><xs:selector xpath="k"/><xs:field xpath="@a"/><xs:field xpath="@b"/></xs:key>
<xs:keyref name="R" refer="K"><xs:selector xpath="r"/><xs:field xpath="@a"/><xs:field xpath="@b"/></xs:keyref>
<xs:unique name="U"><xs:selector xpath="u"/><xs:field xpath="@a"/><xs:field xpath="@b"/></xs:unique>
</xs:element></xs:schema>'''
s = xmlschema.XMLSchema(xsd)
for doc in ['<root><k a="1" b="2"/><r a="1" b="2"/></root>',
            '<root><k a="1" b="2"/><r a="1"/></root>',
            '<root><k a="1" b="2"/><r a="01" b="+2"/></root>',
            '<root><k a="1" b="2"/><r a="3" b="2"/></root>',
            '<root><k a="1" b="2"/><k a="01" b="2"/></root>',
            '<root><k a="1"/></root>',
            '<root><u a="1"/><u a="1"/></root>',
            '<root><u a="1" b="1"/><u a="1" b="01"/></root>',
            '<root><u/><u/></root>',
            ]:
    print(doc, [e.reason for e in s.iter_errors(doc)])
