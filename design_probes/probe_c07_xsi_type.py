# C07 probe: xsi:type legality vs reference (derivation chain, block at element/type/schema, abstract)
import xmlschema, itertools, warnings, random, sys
warnings.simplefilter('ignore')
random.seed(int(sys.argv[1]) if len(sys.argv)>1 else 0)
XSI='http://www.w3.org/2001/XMLSchema-instance'
BL=['','extension','restriction','#all']
def gen():
    # types T0 (root complex type), T1..T3 each derived from an earlier one by ext/restr
    types=[{'name':'T0','base':None,'meth':None}]
    for i in range(1,4):
        types.append({'name':f'T{i}','base':random.randrange(i),'meth':random.choice(('extension','restriction'))})
    for t in types:
        t['abstract']=random.random()<0.2
        t['block']=random.choice([None]+BL)
    schema_block=random.choice([None]+BL)
    elem_block=random.choice([None]+BL)
    decl=random.randrange(4)
    return types,schema_block,elem_block,decl
def xsd_of(types,schema_block,elem_block,decl):
    out=[f'<xs:schema xmlns:xs="http://www.w3.org/2001/XMLSchema"'+(f' blockDefault="{schema_block}"' if schema_block is not None else '')+'>']
    # content: T0 = sequence(a?) ; extension adds optional child named after type; restriction: same content (no change)
    def content_particles(i):
        t=types[i]
        if t['base'] is None: return ['<xs:element name="a" type="xs:string" minOccurs="0"/>']
        base=content_particles(t['base'])
        if t['meth']=='extension': return base+[f'<xs:element name="x{i}" type="xs:string" minOccurs="0"/>']
        return base
    for i,t in enumerate(types):
        attrs=f' name="{t["name"]}"'+(' abstract="true"' if t['abstract'] else '')+(f' block="{t["block"]}"' if t['block'] is not None else '')
        if t['base'] is None:
            out.append(f'<xs:complexType{attrs}><xs:sequence>{"".join(content_particles(i))}</xs:sequence></xs:complexType>')
        elif t['meth']=='extension':
            out.append(f'<xs:complexType{attrs}><xs:complexContent><xs:extension base="{types[t["base"]]["name"]}"><xs:sequence><xs:element name="x{i}" type="xs:string" minOccurs="0"/></xs:sequence></xs:extension></xs:complexContent></xs:complexType>')
        else:
            out.append(f'<xs:complexType{attrs}><xs:complexContent><xs:restriction base="{types[t["base"]]["name"]}"><xs:sequence>{"".join(content_particles(i))}</xs:sequence></xs:restriction></xs:complexContent></xs:complexType>')
    out.append(f'<xs:element name="root" type="{types[decl]["name"]}"'+(f' block="{elem_block}"' if elem_block is not None else '')+'/>')
    out.append('</xs:schema>')
    return ''.join(out)
def eff(b, default):
    v = default if b is None else b
    if v is None: v=''
    if v=='#all': return {'extension','restriction','substitution'}
    return set(v.split())
def ref_ok(types,schema_block,elem_block,decl,k):
    # k = index of xsi:type
    sb=schema_block
    # chain from k up to decl
    chain=[]; i=k
    while i!=decl:
        if types[i]['base'] is None: return False   # not derived
        chain.append(types[i]['meth']); i=types[i]['base']
    if types[k]['abstract']: return False
    blocked=eff(elem_block,sb)|eff(types[decl]['block'],sb)
    if any(m in blocked for m in chain): return False
    return True
bad=0;n=0
for trial in range(int(sys.argv[2]) if len(sys.argv)>2 else 300):
    g=gen()
    for cls in (xmlschema.XMLSchema10, xmlschema.XMLSchema11):
        try: s=cls(xsd_of(*g))
        except Exception as e: continue
        for k in range(4):
            xml=f'<root xmlns:xsi="{XSI}" xsi:type="T{k}"/>'
            got=s.is_valid(xml); exp=ref_ok(*g,k); n+=1
            if got!=exp:
                bad+=1
                if bad<20: print('MISMATCH',cls.__name__,'decl',g[3],'xsi',k,'impl',got,'ref',exp,[(t['base'],t['meth'][:3] if t['meth'] else None,t['abstract'],t['block']) for t in g[0]],'sb',g[1],'eb',g[2])
        # no xsi:type: valid iff declared type not abstract
        got=s.is_valid('<root/>'); exp=not g[0][g[3]]['abstract']; n+=1
        if got!=exp: bad+=1; print('MISMATCH-noxsi',cls.__name__,got,exp)
print('cases',n,'bad',bad)
