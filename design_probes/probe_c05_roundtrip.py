import xmlschema, warnings
import xml.etree.ElementTree as ET
warnings.simplefilter('ignore')
xsd='''<xs:schema xmlns:xs="http://www.w3.org/2001/XMLSchema" targetNamespace="urn:t" xmlns:t="urn:t" elementFormDefault="qualified">
<xs:element name="root"><xs:complexType><xs:sequence>
  <xs:element name="h"><xs:complexType><xs:simpleContent><xs:extension base="xs:decimal"><xs:attribute name="u" type="xs:string"/></xs:extension></xs:simpleContent></xs:complexType></xs:element>
  <xs:element name="l" minOccurs="0"><xs:simpleType><xs:list itemType="xs:integer"/></xs:simpleType></xs:element>
  <xs:element name="m" minOccurs="0"><xs:complexType mixed="true"><xs:sequence><xs:element name="b" type="xs:string" minOccurs="0" maxOccurs="unbounded"/></xs:sequence></xs:complexType></xs:element>
  <xs:choice maxOccurs="unbounded"><xs:element name="x" type="xs:boolean"/><xs:element name="y" type="xs:date"/></xs:choice>
</xs:sequence><xs:attribute name="id" type="xs:integer"/></xs:complexType></xs:element></xs:schema>'''
s=xmlschema.XMLSchema(xsd)
doc='<t:root xmlns:t="urn:t" id="7"><t:h u="kg">1.50</t:h><t:l>1 2 3</t:l><t:m>aa<t:b>B</t:b>cc</t:m><t:x>true</t:x><t:y>2020-01-01</t:y><t:x>0</t:x></t:root>'
assert s.is_valid(doc)
def canon(e):
    return (e.tag, tuple(sorted(e.attrib.items())), (e.text or '').strip(), tuple(canon(c) for c in e), )
orig=canon(ET.fromstring(doc))
for name in ('XMLSchemaConverter','UnorderedConverter','ParkerConverter','BadgerFishConverter','GDataConverter','AbderaConverter','JsonMLConverter','ColumnarConverter','DataElementConverter'):
    conv=getattr(xmlschema,name)
    try:
        d=s.decode(doc,converter=conv)
        e=s.encode(d,converter=conv)
        ok=s.is_valid(e) if not isinstance(e,tuple) else False
        same=canon(e)==orig
        d2=s.decode(e,converter=conv)
        print(name,'valid',ok,'same-structure',same,'redecode-same',d==d2 if name!='DataElementConverter' else 'n/a')
        if not same: print('    ', ET.tostring(e).decode()[:300])
    except Exception as ex:
        print(name,'EXC',type(ex).__name__,str(ex)[:120])
print('---')
for conv in (xmlschema.JsonMLConverter, xmlschema.BadgerFishConverter):
    d=s.decode(doc,converter=conv); e=s.encode(d,converter=conv); d2=s.decode(e,converter=conv)
    print(conv.__name__); print(' d ',d); print(' d2',d2)
doc2=doc.replace('<t:m>aa<t:b>B</t:b>cc</t:m>','')
for name in ('XMLSchemaConverter','BadgerFishConverter','GDataConverter','JsonMLConverter'):
    conv=getattr(xmlschema,name)
    d=s.decode(doc2,converter=conv); e=s.encode(d,converter=conv); d2=s.decode(e,converter=conv)
    print(name,'nomixed redecode-same',d==d2, 'valid', s.is_valid(e))
