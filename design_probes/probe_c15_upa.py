import sys, itertools, xmlschema, warnings, random
from ref import *
from upa import is_deterministic
warnings.simplefilter('ignore')
def mk(model, version):
    xsd = f'''<xs:schema xmlns:xs="http://www.w3.org/2001/XMLSchema">
<xs:element name="root"><xs:complexType>{model}</xs:complexType></xs:element>
</xs:schema>'''
    cls = xmlschema.XMLSchema10 if version=='1.0' else xmlschema.XMLSchema11
    return cls(xsd)
OCC=[(1,1),(0,1),(0,None),(1,None),(2,2),(1,2),(0,2)]
random.seed(int(sys.argv[1]))
def leaf(): 
    mn,mx=random.choice(OCC); return ('e',random.choice('ab'),mn,mx)
def rand_model(depth=2):
    k=random.choice('sc'); n=random.choice((1,2,3))
    kids=[rand_model(depth-1) if depth>1 and random.random()<0.4 else leaf() for _ in range(n)]
    mn,mx=random.choice(OCC); return (k,kids,mn,mx)
words=[''.join(w) for n in range(0,6) for w in itertools.product('ab',repeat=n)]
N=int(sys.argv[2]); stats={'det_acc':0,'det_rej':0,'nd_acc':0,'nd_rej':0,'lang_bad':0,'lang_ok':0}
ex={'det_rej':[], 'nd_acc':[], 'lang_bad':[]}
for i in range(N):
    m=rand_model()
    det=is_deterministic(m)
    try: s=mk(to_xsd(m),'1.0'); acc=True
    except xmlschema.XMLSchemaModelError: acc=False
    except xmlschema.XMLSchemaException as e: continue
    k=('det' if det else 'nd')+('_acc' if acc else '_rej'); stats[k]+=1
    if k in ex and len(ex[k])<8: ex[k].append(to_xsd(m))
    if det and acc:
        r=conv(m); ok=True
        for w in words:
            xml='<root>'+''.join(f'<{c}/>' for c in w)+'</root>'
            if s.is_valid(xml)!=matches(r,w):
                ok=False
                if len(ex['lang_bad'])<12: ex['lang_bad'].append((to_xsd(m),w,matches(r,w)))
                break
        stats['lang_ok' if ok else 'lang_bad']+=1
print(stats)
for k,v in ex.items():
    print(k)
    for x in v: print('   ',x)
