import xmlschema, io
from xmlschema import XMLResource
cases = {
 'internal': '<!DOCTYPE r [<!ENTITY e "x">]><r>&e;</r>',
 'external_ent': '<!DOCTYPE r [<!ENTITY e SYSTEM "file:///etc/passwd">]><r>&e;</r>',
 'param': '<!DOCTYPE r [<!ENTITY % p "x">]><r/>',
 'unparsed': '<!DOCTYPE r [<!NOTATION n SYSTEM "n"><!ENTITY u SYSTEM "u" NDATA n>]><r/>',
 'ext_subset': '<!DOCTYPE r SYSTEM "http://example.com/x.dtd"><r/>',
 'ext_subset_pub': '<!DOCTYPE r PUBLIC "-//X//Y" "x.dtd"><r/>',
 'plain_doctype': '<!DOCTYPE r><r/>',
 'attlist': '<!DOCTYPE r [<!ATTLIST r a CDATA "d">]><r/>',
 'none': '<r/>',
}
for k,v in cases.items():
    for defuse in ('always','never'):
        try:
            r = XMLResource(v, defuse=defuse)
            print(k, defuse, 'OK', r.root.tag, repr(r.root.text), r.root.attrib)
        except Exception as e:
            print(k, defuse, type(e).__name__, str(e)[:80])
