import xmlschema, warnings
from xmlschema import XMLResource, XMLSchema
warnings.simplefilter('ignore')
xsd='''<xs:schema xmlns:xs="http://www.w3.org/2001/XMLSchema">
<xs:element name="root"><xs:complexType><xs:sequence>
 <xs:element name="g" maxOccurs="unbounded"><xs:complexType><xs:sequence>
   <xs:element name="i" maxOccurs="unbounded"><xs:complexType><xs:sequence><xs:element name="v" type="xs:integer" maxOccurs="unbounded"/></xs:sequence><xs:attribute name="k" type="xs:integer"/></xs:complexType></xs:element>
 </xs:sequence></xs:complexType>
 <xs:key name="GK"><xs:selector xpath="i"/><xs:field xpath="@k"/></xs:key>
 <xs:keyref name="GR" refer="GK"><xs:selector xpath="i/v"/><xs:field xpath="."/></xs:keyref>
 </xs:element>
</xs:sequence></xs:complexType>
</xs:element></xs:schema>'''
s=XMLSchema(xsd)
docs={
 'valid':'<root><g><i k="1"><v>1</v></i><i k="2"><v>2</v><v>1</v></i></g><g><i k="3"><v>3</v></i></g></root>',
 'dangling':'<root><g><i k="1"><v>9</v></i></g><g><i k="3"><v>1</v></i></g></root>',
 'dupkey':'<root><g><i k="1"><v>1</v></i><i k="1"><v>1</v></i></g></root>',
 'badv':'<root><g><i k="1"><v>x</v></i><i k="2"><v>1</v><v>y</v></i></g></root>',
}
for name,doc in docs.items():
    base=[e.reason[:50] for e in s.iter_errors(doc)]
    print(name,'eager',base)
    for lazy in (1,2,3):
        for thin in (True,False):
            try:
                got=[e.reason[:50] for e in s.iter_errors(XMLResource(doc,lazy=lazy,thin_lazy=thin))]
                print('   lazy',lazy,'thin',thin,'same' if got==base else ('DIFF',got))
            except Exception as e:
                print('   lazy',lazy,'thin',thin,'EXC',type(e).__name__,str(e)[:70])
