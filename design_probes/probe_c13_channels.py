import xmlschema, io, os, tempfile, shutil, warnings
from xmlschema import XMLResource, XMLSchema
warnings.simplefilter('ignore')
bad='<!DOCTYPE r [<!ENTITY e "x">]><r>&e;</r>'
class NonSeekRaw(io.RawIOBase):
    def __init__(s,data): s.b=io.BytesIO(data)
    def readable(s): return True
    def seekable(s): return False
    def readinto(s,b):
        d=s.b.read(len(b)); b[:len(d)]=d; return len(d)
class NonSeekBuf(io.BufferedIOBase):
    def __init__(s,data): s.b=io.BytesIO(data)
    def readable(s): return True
    def seekable(s): return False
    def read(s,n=-1): return s.b.read(n)
    def read1(s,n=-1): return s.b.read(n)
class NonSeekText(io.TextIOBase):
    def __init__(s,data): s.b=io.StringIO(data)
    def readable(s): return True
    def seekable(s): return False
    def read(s,n=-1): return s.b.read(n)
def t(label, mk, **kw):
    try:
        r=XMLResource(mk(), **kw); print(label, kw, 'OK text=',repr(r.root.text))
    except Exception as e: print(label, kw, type(e).__name__, str(e)[:70])
for d in ('always','nonlocal','remote','never'):
    t('str', lambda: bad, defuse=d)
    t('bytes', lambda: bad.encode(), defuse=d)
    t('StringIO', lambda: io.StringIO(bad), defuse=d)
    t('BytesIO', lambda: io.BytesIO(bad.encode()), defuse=d)
    t('raw-nonseek', lambda: NonSeekRaw(bad.encode()), defuse=d)
    t('buf-nonseek', lambda: NonSeekBuf(bad.encode()), defuse=d)
    t('text-nonseek', lambda: NonSeekText(bad), defuse=d)
tmp=tempfile.mkdtemp(prefix='probe_')
try:
    p=os.path.join(tmp,'d.xml'); open(p,'w').write(bad)
    for d in ('always','nonlocal','remote','never'):
        t('path', lambda: p, defuse=d)
        t('fileurl', lambda: 'file://'+p, defuse=d)
        t('openfile', lambda: open(p,'rb'), defuse=d)
        t('lazy-path', lambda: p, defuse=d, lazy=True)
    inc=os.path.join(tmp,'inc.xsd'); open(inc,'w').write('<!DOCTYPE xs:schema [<!ENTITY e "x">]><xs:schema xmlns:xs="http://www.w3.org/2001/XMLSchema"><xs:element name="i&e;"/></xs:schema>')
    main=os.path.join(tmp,'main.xsd'); open(main,'w').write('<xs:schema xmlns:xs="http://www.w3.org/2001/XMLSchema"><xs:include schemaLocation="inc.xsd"/><xs:element name="root"/></xs:schema>')
    for d in ('always','nonlocal','remote','never'):
        try:
            s=XMLSchema(main, defuse=d); print('include',d,'OK',list(s.elements))
        except Exception as e: print('include',d,type(e).__name__,str(e)[:70])
        try:
            s=XMLSchema(open(main).read(), base_url=tmp, defuse=d); print('include-from-text',d,'OK',list(s.elements))
        except Exception as e: print('include-from-text',d,type(e).__name__,str(e)[:70])
finally: shutil.rmtree(tmp)
