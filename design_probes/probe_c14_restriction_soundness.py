# C14 probe: accepted restriction => language subset?
import sys, itertools, xmlschema, warnings, random
from ref import *
warnings.simplefilter('ignore')
OCC=[(1,1),(0,1),(0,None),(1,None),(2,2),(1,2),(0,2)]
random.seed(int(sys.argv[1]))
def leaf(names='ab'):
    mn,mx=random.choice(OCC); return ('e',random.choice(names),mn,mx)
def rand_model(depth=2):
    k=random.choice('sc'); n=random.choice((1,2,3))
    kids=[rand_model(depth-1) if depth>1 and random.random()<0.35 else leaf() for _ in range(n)]
    mn,mx=random.choice(OCC); return (k,kids,mn,mx)
def mutate(m):
    # random edit producing candidate restriction
    m=list(m)
    r=random.random()
    if m[0]=='e':
        mn,mx=random.choice(OCC); return ('e',m[1],mn,mx)
    kids=list(m[1])
    if r<0.3:
        mn,mx=random.choice(OCC); return (m[0],kids,mn,mx)
    if r<0.5 and len(kids)>1:
        del kids[random.randrange(len(kids))]; return (m[0],kids,m[2],m[3])
    if r<0.6:
        kids.insert(random.randrange(len(kids)+1), leaf()); return (m[0],kids,m[2],m[3])
    if r<0.7 and m[0]=='c':
        return ('s',[random.choice(kids)],m[2],m[3])
    i=random.randrange(len(kids)); kids[i]=mutate(kids[i]); return (m[0],kids,m[2],m[3])
def mk(base, der, version):
    xsd=f'''<xs:schema xmlns:xs="http://www.w3.org/2001/XMLSchema">
<xs:element name="a" type="xs:string"/><xs:element name="b" type="xs:string"/>
<xs:complexType name="B">{to_xsd_ref(base)}</xs:complexType>
<xs:complexType name="D"><xs:complexContent><xs:restriction base="B">{to_xsd_ref(der)}</xs:restriction></xs:complexContent></xs:complexType>
<xs:element name="base" type="B"/><xs:element name="der" type="D"/>
</xs:schema>'''
    return (xmlschema.XMLSchema10 if version=='1.0' else xmlschema.XMLSchema11)(xsd), xsd
def to_xsd_ref(n):
    def occ(mn,mx):
        s=''
        if mn!=1: s+=f' minOccurs="{mn}"'
        if mx!=1: s+=f' maxOccurs="{"unbounded" if mx is None else mx}"'
        return s
    if n[0]=='e': return f'<xs:element ref="{n[1]}"{occ(n[2],n[3])}/>'
    tag={'s':'sequence','c':'choice'}[n[0]]
    return f'<xs:{tag}{occ(n[2],n[3])}>'+''.join(to_xsd_ref(c) for c in n[1])+f'</xs:{tag}>'
def short(n):
    def occ(mn,mx):
        return {(1,1):'',(0,1):'?',(0,None):'*',(1,None):'+'}.get((mn,mx),'{%s,%s}'%(mn,'' if mx is None else mx))
    if n[0]=='e': return n[1]+occ(n[2],n[3])
    return '('+(',' if n[0]=='s' else '|').join(short(c) for c in n[1])+')'+occ(n[2],n[3])
words=[''.join(w) for n in range(0,6) for w in itertools.product('ab',repeat=n)]
N=int(sys.argv[2]); acc=0; unsound=0; rej_sub=0; rej=0
for version in ('1.0','1.1'):
  for i in range(N):
    base=rand_model(); der=mutate(base)
    if random.random()<0.3: der=mutate(der)
    try: s,xsd=mk(base,der,version); ok=True
    except xmlschema.XMLSchemaException as e: ok=False
    rb,rd=conv(base),conv(der)
    sub=all((not matches(rd,w)) or matches(rb,w) for w in words)
    if ok:
        acc+=1
        if not sub:
            unsound+=1
            w=[w for w in words if matches(rd,w) and not matches(rb,w)][0]
            xml_d='<der>'+''.join(f'<{c}/>' for c in w)+'</der>'; xml_b='<base>'+''.join(f'<{c}/>' for c in w)+'</base>'
            print('UNSOUND',version,'base',short(base),'der',short(der),'word',repr(w),'impl der',s.is_valid(xml_d),'impl base',s.is_valid(xml_b))
    else:
        rej+=1
        if sub: rej_sub+=1
print('accepted',acc,'unsound',unsound,'rejected',rej,'rejected-but-subset',rej_sub)
