# C19/C20 probe on a generated-ish schema: damage single nodes, check localisation; check find(path) vs validation_hook
import xmlschema, warnings, copy, itertools
import xml.etree.ElementTree as ET
from elementpath import select
warnings.simplefilter('ignore')
xsd='''<xs:schema xmlns:xs="http://www.w3.org/2001/XMLSchema">
<xs:element name="root"><xs:complexType><xs:sequence>
  <xs:element name="h"><xs:complexType><xs:sequence><xs:element name="n" type="xs:integer"/><xs:element name="t" type="xs:string" minOccurs="0"/></xs:sequence><xs:attribute name="a" type="xs:integer" use="required"/></xs:complexType></xs:element>
  <xs:element name="item" maxOccurs="unbounded"><xs:complexType><xs:sequence>
     <xs:element name="n" type="xs:date"/>
     <xs:element name="sub" minOccurs="0" maxOccurs="2"><xs:complexType><xs:sequence><xs:element name="n" type="xs:boolean" maxOccurs="3"/></xs:sequence><xs:attribute name="b" type="xs:NCName"/></xs:complexType></xs:element>
  </xs:sequence><xs:attribute name="id" type="xs:ID"/></xs:complexType></xs:element>
</xs:sequence></xs:complexType></xs:element></xs:schema>'''
s=xmlschema.XMLSchema(xsd)
doc='<root><h a="1"><n>5</n><t>x</t></h><item id="i1"><n>2020-01-01</n><sub b="q"><n>true</n><n>0</n></sub><sub><n>1</n></sub></item><item id="i2"><n>2021-02-03</n></item></root>'
assert s.is_valid(doc)
root=ET.fromstring(doc)
nodes=list(root.iter())
parent={c:p for p in root.iter() for c in p}
def path_of(e):
    parts=[]
    while e is not root:
        p=parent[e]; same=[c for c in p if c.tag==e.tag]
        parts.append(e.tag+(f'[{same.index(e)+1}]' if len(same)>1 else '')); e=p
    return '/root'+''.join('/'+x for x in reversed(parts))
def anc_chain(e):
    out=[e]
    while e in parent: e=parent[e]; out.append(e)
    return out
bad=0; total=0
def check(r2, dam, kind):
    global bad,total
    total+=1
    errs=list(s.iter_errors(r2))
    if not errs: print('NOT-INVALID',kind,path_of_map[dam]); bad+=1; return
    near=False
    allowed=set(id(x) for x in anc_chain2(r2,dam))|set(id(x) for x in dam.iter())
    for e in errs:
        sel=select(r2, e.path) if e.path else []
        if len(sel)!=1 or sel[0] is not e.elem:
            print('PATH-NOT-UNIQUE',kind,e.path,len(sel)); bad+=1
        if e.elem is dam or (dam in pm2 and e.elem is pm2[dam]): near=True
        if id(e.elem) not in allowed: print('OUTSIDE',kind,path_of_map[dam],'err at',e.path,e.reason[:50]); bad+=1
    if not near: print('NOT-NEAR',kind,path_of_map[dam],[ (e.path,e.reason[:40]) for e in errs]); bad+=1
def anc_chain2(r2,e):
    out=[e]
    while e in pm2: e=pm2[e]; out.append(e)
    return out
for idx,node in enumerate(nodes):
    for kind in ('badvalue','extra_child','remove','extra_attr','dup','rename'):
        r2=copy.deepcopy(root); n2=list(r2.iter())[idx]
        pm2={c:p for p in r2.iter() for c in p}
        path_of_map={n2:path_of(node)}
        dam=n2
        if kind=='badvalue':
            if len(n2): continue
            n2.text='@@bad@@'
        elif kind=='extra_child':
            ET.SubElement(n2,'zzz'); 
        elif kind=='remove':
            if n2 is r2: continue
            p=pm2[n2]; 
            # removing optional nodes keeps valid: only remove required ones (n, h)
            if n2.tag not in ('n','h'): continue
            if n2.tag=='n' and pm2[n2].tag=='sub' and len(pm2[n2])>1: continue
            p.remove(n2); dam=p; path_of_map[dam]=path_of(parent[node])
        elif kind=='extra_attr':
            n2.set('bogus','1')
        elif kind=='dup':
            if n2 is r2 or n2.tag not in ('h',): continue
            p=pm2[n2]; p.insert(list(p).index(n2), copy.deepcopy(n2)); dam=p; path_of_map[dam]=path_of(parent[node])
        elif kind=='rename':
            if n2 is r2: continue
            n2.tag='renamed'
        check(r2,dam,kind)
print('total',total,'bad',bad)
# C20: find(path) vs governing declaration
gov={}
def hook(elem, xsd_element): gov[elem]=xsd_element; return False
r=ET.fromstring(doc); list(s.iter_errors(r, validation_hook=hook))
pm={c:p for p in r.iter() for c in p}
def pth(e,pos):
    parts=[]
    while e is not r:
        p=pm[e]; same=[c for c in p if c.tag==e.tag]
        parts.append(e.tag+(f'[{same.index(e)+1}]' if pos and len(same)>1 else '')); e=p
    return '/root'+''.join('/'+x for x in reversed(parts))
mism=0
for e in r.iter():
    for pos in (False,True):
        p=pth(e,pos)
        try: f=s.find(p)
        except Exception as ex: f=('EXC',type(ex).__name__)
        g=gov.get(e)
        if f is not g and not (g is not None and getattr(g,'ref',None) is f):
            mism+=1; print('FIND-MISMATCH',p,f,g)
print('find mismatches',mism)
# partial decode
full=s.decode(doc)
for p in ('/root/item','/root/item/sub','/root/h','/root/item[2]','item/sub/n'):
    try: print(p, s.decode(doc,path=p))
    except Exception as ex: print(p,'EXC',type(ex).__name__,str(ex)[:60])
print(full)
