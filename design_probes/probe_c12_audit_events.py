import sys, os, tempfile, shutil
events=[]
on=[False]
def hook(ev, args):
    if on[0] and ev in ('open','urllib.Request','socket.connect','socket.getaddrinfo','os.listdir','os.scandir'):
        events.append((ev, str(args[0])[:120]))
sys.addaudithook(hook)
import xmlschema  # import first (meta-schemas loaded at import)
tmp=tempfile.mkdtemp(prefix='probe_')
try:
    open(os.path.join(tmp,'inc.xsd'),'w').write('<xs:schema xmlns:xs="http://www.w3.org/2001/XMLSchema"><xs:element name="i"/></xs:schema>')
    open(os.path.join(tmp,'main.xsd'),'w').write('<xs:schema xmlns:xs="http://www.w3.org/2001/XMLSchema"><xs:include schemaLocation="inc.xsd"/><xs:import namespace="urn:x" schemaLocation="http://example.invalid/x.xsd"/><xs:element name="root"/></xs:schema>')
    for allow in ('all','local','sandbox','none','remote'):
        events.clear(); on[0]=True
        try:
            s=xmlschema.XMLSchema(os.path.join(tmp,'main.xsd'), allow=allow, timeout=1)
            res='built '+str(sorted(s.elements))
        except Exception as e: res=type(e).__name__+': '+str(e)[:60]
        on[0]=False
        print(allow, res)
        for ev in events: print('    ',ev)
    # text source with base_url and allow none
    events.clear(); on[0]=True
    try:
        s=xmlschema.XMLSchema(open(os.path.join(tmp,'main.xsd')).read(), base_url=tmp, allow='none'); res='built '+str(sorted(s.elements))
    except Exception as e: res=type(e).__name__+': '+str(e)[:60]
    on[0]=False; print('text+none',res); [print('    ',ev) for ev in events]
finally: shutil.rmtree(tmp)
