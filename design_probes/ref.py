# reference: counted regex derivatives
import itertools, functools
# AST: ('e', name, mn, mx) ; ('s'|'c'|'a', [children], mn, mx) ; mx None = unbounded
def to_xsd(n):
    def occ(mn,mx):
        s=''
        if mn!=1: s+=f' minOccurs="{mn}"'
        if mx!=1: s+=f' maxOccurs="{"unbounded" if mx is None else mx}"'
        return s
    if n[0]=='e':
        return f'<xs:element name="{n[1]}"{occ(n[2],n[3])}/>'
    if n[0]=='w':
        return f'<xs:any processContents="lax"{occ(n[2],n[3])}/>'
    tag={'s':'sequence','c':'choice','a':'all'}[n[0]]
    return f'<xs:{tag}{occ(n[2],n[3])}>'+''.join(to_xsd(c) for c in n[1])+f'</xs:{tag}>'

# expand to plain regex with Brzozowski derivative on structure:
# R ::= EPS | NUL | ('sym',a) | ('cat',R,R) | ('alt',R,R) | ('rep',R,mn,mx) | ('all', tuple of R items w/ (R,mn,mx))
EPS=('eps',); NUL=('nul',)
def cat(a,b):
    if a==NUL or b==NUL: return NUL
    if a==EPS: return b
    if b==EPS: return a
    return ('cat',a,b)
def alt(a,b):
    if a==NUL: return b
    if b==NUL: return a
    if a==b: return a
    return ('alt',a,b)
def rep(r,mn,mx):
    if mx==0: return EPS
    if r==NUL: return EPS if mn==0 else NUL
    if r==EPS: return EPS
    if mn==1 and mx==1: return r
    return ('rep',r,mn,mx)
def conv(n):
    if n[0]=='e': return rep(('sym',n[1]),n[2],n[3])
    if n[0]=='w': return rep(('any',),n[2],n[3])
    kids=[conv(c) for c in n[1]]
    if n[0]=='s':
        r=EPS
        for k in reversed(kids): r=cat(k,r)
    elif n[0]=='c':
        if not kids: r = NUL   # empty choice matches nothing
        else:
            r=NUL
            for k in kids: r=alt(r,k)
    else:
        r=('all',tuple(kids))
        if not kids: r=EPS
    return rep(r,n[2],n[3])
@functools.lru_cache(None)
def nullable(r):
    t=r[0]
    if t=='eps': return True
    if t in('nul','sym','any'): return False
    if t=='cat': return nullable(r[1]) and nullable(r[2])
    if t=='alt': return nullable(r[1]) or nullable(r[2])
    if t=='rep': return r[2]==0 or nullable(r[1])
    if t=='all': return all(nullable(k) for k in r[1])
@functools.lru_cache(None)
def deriv(r,a):
    t=r[0]
    if t in('eps','nul'): return NUL
    if t=='sym': return EPS if r[1]==a else NUL
    if t=='any': return EPS
    if t=='cat':
        d=cat(deriv(r[1],a),r[2])
        if nullable(r[1]): d=alt(d,deriv(r[2],a))
        return d
    if t=='alt': return alt(deriv(r[1],a),deriv(r[2],a))
    if t=='rep':
        _,x,mn,mx=r
        # if x nullable, treat mn as 0 effectively for remaining
        nmn=max(mn-1,0); nmx=None if mx is None else mx-1
        if nullable(x): nmn=0
        return cat(deriv(x,a),rep(x,nmn,nmx))
    if t=='all':
        res=NUL
        ks=r[1]
        for i,k in enumerate(ks):
            d=deriv(k,a)
            if d!=NUL:
                rest=ks[:i]+ks[i+1:]
                res=alt(res,cat(d,('all',rest) if rest else EPS))
        return res
def matches(r,word):
    for a in word:
        r=deriv(r,a)
        if r==NUL: return False
    return nullable(r)
