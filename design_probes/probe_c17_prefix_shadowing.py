import xmlschema
xsd = '''<xs:schema xmlns:xs="http://www.w3.org/2001/XMLSchema" targetNamespace="A" xmlns:a="A" elementFormDefault="qualified">
<xs:import namespace="B"/>
<xs:element name="root"><xs:complexType><xs:sequence>
  <xs:element name="mid"><xs:complexType><xs:sequence><xs:element name="x" type="xs:string" maxOccurs="unbounded"/></xs:sequence></xs:complexType></xs:element>
</xs:sequence></xs:complexType></xs:element>
</xs:schema>'''
s = xmlschema.XMLSchema(xsd)
xml = '''<p:root xmlns:p="A" xmlns:q="A"><p:mid xmlns:p="B" xmlns:r="A"><q:x>1</q:x><r:x>2</r:x></p:mid></p:root>'''
xml = '''<p:root xmlns:p="A" xmlns:q="A"><q:mid xmlns:p="B"><q:x>1</q:x></q:mid></p:root>'''
print(s.is_valid(xml))
import pprint
for conv in (None, xmlschema.JsonMLConverter, xmlschema.BadgerFishConverter):
    d = s.decode(xml, converter=conv)
    pprint.pprint(d)
