import sys, itertools, xmlschema, warnings, random
from ref import *
from upa import is_deterministic
warnings.simplefilter('ignore')
def mk(model, version):
    xsd = f'''<xs:schema xmlns:xs="http://www.w3.org/2001/XMLSchema"><xs:element name="root"><xs:complexType>{model}</xs:complexType></xs:element></xs:schema>'''
    return (xmlschema.XMLSchema10 if version=='1.0' else xmlschema.XMLSchema11)(xsd)
OCC=[(1,1),(0,1),(0,None),(1,None),(2,2),(1,2),(0,2)]
leaves=[('e',n,mn,mx) for n in 'ab' for mn,mx in OCC]
words=[''.join(w) for n in range(0,6) for w in itertools.product('ab',repeat=n)]
def short(n):
    def occ(mn,mx):
        if (mn,mx)==(1,1): return ''
        if (mn,mx)==(0,1): return '?'
        if (mn,mx)==(0,None): return '*'
        if (mn,mx)==(1,None): return '+'
        return '{%s,%s}'%(mn,'' if mx is None else mx)
    if n[0]=='e': return n[1]+occ(n[2],n[3])
    sep=',' if n[0]=='s' else '|'
    return '('+sep.join(short(c) for c in n[1])+')'+occ(n[2],n[3])
bad=[]; tot=0
# exhaustive depth-1 with 1..2 kids
import multiprocessing as mp
def work(m):
    if not is_deterministic(m): return None
    try: s=mk(to_xsd(m),'1.0')
    except xmlschema.XMLSchemaException: return ('rej',short(m))
    r=conv(m)
    for w in words:
        if s.is_valid('<root>'+''.join(f'<{c}/>' for c in w)+'</root>')!=matches(r,w):
            return ('bad',short(m),w,matches(r,w))
    return ('ok',)
models=[(k,list(kids),mn,mx) for k in 'sc' for n in (1,2) for kids in itertools.product(leaves,repeat=n) for mn,mx in OCC]
with mp.Pool(16) as p: res=p.map(work,models,chunksize=20)
from collections import Counter
print(Counter(r[0] if r else 'nondet' for r in res))
for r in res:
    if r and r[0]=='rej': print('DET-REJECTED',r[1])
b=[r for r in res if r and r[0]=='bad']
print(len(b))
for r in b[:80]: print(r[1],repr(r[2]),'expected',r[3])
