# C01: find failure classes beyond "group minOccurs>=2": random deterministic models depth<=3 with group min in {0,1}
import sys, itertools, xmlschema, warnings, random, multiprocessing as mp
from ref import *
import upa
from strong import strongly_det
warnings.simplefilter('ignore')
def mk(model, version):
    xsd = f'''<xs:schema xmlns:xs="http://www.w3.org/2001/XMLSchema"><xs:element name="root"><xs:complexType>{model}</xs:complexType></xs:element></xs:schema>'''
    return (xmlschema.XMLSchema10 if version=='1.0' else xmlschema.XMLSchema11)(xsd)
LOCC=[(1,1),(0,1),(0,None),(1,None),(2,2),(1,2),(0,2),(2,3),(0,3)]
GOCC=[(1,1),(0,1),(0,None),(1,None),(1,2),(0,2),(0,3),(1,3)]
def short(n):
    def occ(mn,mx):
        return {(1,1):'',(0,1):'?',(0,None):'*',(1,None):'+'}.get((mn,mx),'{%s,%s}'%(mn,'' if mx is None else mx))
    if n[0]=='e': return n[1]+occ(n[2],n[3])
    return '('+(',' if n[0]=='s' else '|').join(short(c) for c in n[1])+')'+occ(n[2],n[3])
words=[''.join(w) for n in range(0,7) for w in itertools.product('abc',repeat=n) if n<=5 or w[0]=='a']
def work(seed):
    rng=random.Random(seed)
    def leaf():
        mn,mx=rng.choice(LOCC); return ('e',rng.choice('abc'),mn,mx)
    def rm(depth):
        k=rng.choice('sc'); n=rng.choice((1,2,3))
        kids=[rm(depth-1) if depth>1 and rng.random()<0.4 else leaf() for _ in range(n)]
        mn,mx=rng.choice(GOCC); return (k,kids,mn,mx)
    out=[]
    for i in range(60):
        m=rm(3)
        if not upa.is_deterministic(m): continue
        if not strongly_det(conv(m)): out.append(('weak',)); continue
        try: s=mk(to_xsd(m),'1.0')
        except xmlschema.XMLSchemaException: out.append(('rej',short(m))); continue
        r=conv(m)
        for w in words:
            got=s.is_valid('<root>'+''.join(f'<{c}/>' for c in w)+'</root>'); exp=matches(r,w)
            if got!=exp: out.append(('bad',short(m),w,exp)); break
        else: out.append(('ok',))
    return out
if __name__=='__main__':
    with mp.Pool(16) as p: res=[x for r in p.map(work, range(int(sys.argv[1]), int(sys.argv[1])+64)) for x in r]
    from collections import Counter
    print(Counter(x[0] for x in res))
    for x in sorted([x for x in res if x[0]=='bad'], key=lambda x: len(x[1]))[:40]: print(x[1], repr(x[2]), 'expected', x[3])
    print('det-rejected sample:', [x[1] for x in res if x[0]=='rej'][:10])
