# Reference UPA check: Glushkov automaton on unrolled counters; positions carry particle ids.
import itertools
class Pos:
    __slots__=('pid','sym')
    def __init__(s,pid,sym): s.pid=pid; s.sym=sym
def unroll(n, counter=[0], ids=None):
    """returns regex tree over positions: ('pos',Pos)|('cat',[..])|('alt',[..])|('star',x)|('opt',x)|('eps',)|('all',[..])"""
    if ids is None: ids={}
    key=id(n)
    def base():
        if n[0] in 'ew':
            return ('pos', Pos(key, n[1] if n[0]=='e' else '*'))
        kids=[unroll(c,counter,ids) for c in n[1]]
        if n[0]=='s': return ('cat',kids)
        if n[0]=='c': return ('alt',kids) if kids else ('nul',)
        return ('all',kids)
    mn,mx=n[2],n[3]
    if mx==0: return ('eps',)
    parts=[base() for _ in range(mn)]
    if mx is None:
        parts.append(('star',base()))
    else:
        for _ in range(mx-mn): parts.append(('opt',base()))
    return ('cat',parts) if len(parts)!=1 else parts[0]
def nullable(r):
    t=r[0]
    if t=='eps': return True
    if t in('pos','nul'): return False
    if t=='cat': return all(nullable(x) for x in r[1])
    if t=='alt': return any(nullable(x) for x in r[1])
    if t=='all': return all(nullable(x) for x in r[1])
    return True
def first(r):
    t=r[0]
    if t in('eps','nul'): return set()
    if t=='pos': return {r[1]}
    if t=='cat':
        s=set()
        for x in r[1]:
            s|=first(x)
            if not nullable(x): break
        return s
    if t in('alt','all'):
        s=set()
        for x in r[1]: s|=first(x)
        return s
    return first(r[1])
def last(r):
    t=r[0]
    if t in('eps','nul'): return set()
    if t=='pos': return {r[1]}
    if t=='cat':
        s=set()
        for x in reversed(r[1]):
            s|=last(x)
            if not nullable(x): break
        return s
    if t in('alt','all'):
        s=set()
        for x in r[1]: s|=last(x)
        return s
    return last(r[1])
def follow(r, fol):
    t=r[0]
    if t=='cat':
        for x in r[1]: follow(x,fol)
        for i,x in enumerate(r[1]):
            for j in range(i+1,len(r[1])):
                for p in last(x): fol.setdefault(p,set()).update(first(r[1][j]))
                if not nullable(r[1][j]): break
    elif t=='alt':
        for x in r[1]: follow(x,fol)
    elif t=='all':
        # approximation: any other child may follow (ignores used-once), fine for conflict detection among distinct names
        for x in r[1]: follow(x,fol)
        for i,x in enumerate(r[1]):
            for j,y in enumerate(r[1]):
                if i!=j:
                    for p in last(x): fol.setdefault(p,set()).update(first(y))
    elif t=='star':
        follow(r[1],fol)
        for p in last(r[1]): fol.setdefault(p,set()).update(first(r[1]))
    elif t=='opt':
        follow(r[1],fol)
def overlap(p,q,version):
    if p.sym=='*' and q.sym=='*': return True
    if p.sym=='*' or q.sym=='*': return version=='1.0'
    return p.sym==q.sym
def is_deterministic(model, version='1.0'):
    r=unroll(model)
    fol={}
    follow(r,fol)
    sets=[first(r)]+list(fol.values())
    for s in sets:
        for p,q in itertools.combinations(s,2):
            if p.pid!=q.pid and overlap(p,q,version): return False
    return True
