# C09 probe: permute global declarations of corpus schemas (single-file ones w/o include) and compare
import xmlschema, glob, os, random, warnings, copy, pickle, sys
import xml.etree.ElementTree as ET
warnings.simplefilter('ignore')
XS='{http://www.w3.org/2001/XMLSchema}'
HEAD={XS+'include',XS+'import',XS+'redefine',XS+'override',XS+'annotation',XS+'defaultOpenContent'}
files=sorted(glob.glob('/repo/tests/test_cases/**/*.xsd',recursive=True))
random.seed(0)
def globs(s): return sorted((type(c).__name__, c.name) for c in s.maps.iter_globals() if getattr(c,'schema',None) in s.maps.schemas and c.schema.meta_schema is not None and c.schema.target_namespace==s.target_namespace)
n=0; diffs=0; skipped=0
for f in files:
    for cls in (xmlschema.XMLSchema10, xmlschema.XMLSchema11):
        try: base=cls(f)
        except Exception as e: continue
        tree=ET.parse(f); root=tree.getroot()
        head=[c for c in root if c.tag in HEAD or callable(c.tag)]
        body=[c for c in root if c.tag not in HEAD and not callable(c.tag)]
        if len(body)<2: continue
        for trial in range(2):
            random.shuffle(body)
            root[:]=head+body
            txt=ET.tostring(root,encoding='unicode')
            # need namespaces preserved: ET drops unused prefixes used in QName attr values -> reparse may fail; use register from original
            try:
                s2=cls(txt, base_url=os.path.dirname(f))
            except Exception as e:
                skipped+=1; 
                if 'prefix' in str(e) or 'unmapped' in str(e) or 'namespace' in str(e).lower(): continue
                print('BUILD-DIFF',cls.__name__,f,type(e).__name__,str(e)[:100]); diffs+=1; continue
            n+=1
            if globs(base)!=globs(s2):
                diffs+=1; print('GLOBALS-DIFF',cls.__name__,f)
print('compared',n,'diffs',diffs,'skipped',skipped)
