import xmlschema, warnings
from xmlschema import XMLResource, XMLSchema
warnings.simplefilter('ignore')
xsd='''<xs:schema xmlns:xs="http://www.w3.org/2001/XMLSchema">
<xs:element name="root"><xs:complexType><xs:sequence>
 <xs:element name="g" maxOccurs="unbounded"><xs:complexType><xs:sequence>
   <xs:element name="i" maxOccurs="unbounded"><xs:complexType><xs:sequence><xs:element name="v" type="xs:integer" maxOccurs="unbounded"/></xs:sequence><xs:attribute name="id" type="xs:ID"/><xs:attribute name="k" type="xs:integer"/></xs:complexType></xs:element>
 </xs:sequence><xs:attribute name="ref" type="xs:IDREF"/></xs:complexType></xs:element>
</xs:sequence></xs:complexType>
<xs:key name="K"><xs:selector xpath="g/i"/><xs:field xpath="@k"/></xs:key>
</xs:element></xs:schema>'''
s=XMLSchema(xsd)
docs={
 'valid':'<root><g ref="a"><i id="a" k="1"><v>1</v></i><i id="b" k="2"><v>2</v></i></g><g><i id="c" k="3"><v>3</v></i></g></root>',
 'badv':'<root><g><i id="a" k="1"><v>x</v></i><i id="b" k="2"><v>2</v><v>y</v></i></g><g><i id="c" k="3"><v>z</v></i></g></root>',
 'dupkey':'<root><g><i id="a" k="1"><v>1</v></i></g><g><i id="c" k="1"><v>3</v></i></g></root>',
 'dupid':'<root><g><i id="a" k="1"><v>1</v></i></g><g><i id="a" k="2"><v>3</v></i></g></root>',
 'idref':'<root><g ref="zz"><i id="a" k="1"><v>1</v></i></g></root>',
}
for name,doc in docs.items():
    base=[(e.reason,e.path) for e in s.iter_errors(doc)]
    print(name,'eager',len(base))
    for lazy in (1,2,3):
        for thin in (True,False):
            try:
                got=[(e.reason,e.path) for e in s.iter_errors(XMLResource(doc,lazy=lazy,thin_lazy=thin))]
                same = [r for r,_ in got]==[r for r,_ in base]
                print('   lazy',lazy,'thin',thin,len(got),'same-reasons' if same else 'DIFF', '' if same else [r[:40] for r,_ in got])
            except Exception as e:
                print('   lazy',lazy,'thin',thin,'EXC',type(e).__name__,str(e)[:70])
    try:
        d0=s.decode(doc,validation='lax')[0]
        for lazy in (1,2):
            d1=s.decode(XMLResource(doc,lazy=lazy),validation='lax')[0]
            print('   decode lazy',lazy,'same' if d0==d1 else ('DIFF',d1))
    except Exception as e: print('   decode EXC',type(e).__name__,e)
