import time, xmlschema, warnings
warnings.simplefilter('ignore')
xsd='''<xs:schema xmlns:xs="http://www.w3.org/2001/XMLSchema"><xs:element name="root"><xs:complexType><xs:choice maxOccurs="2"><xs:element name="a" maxOccurs="2"/><xs:element name="b" minOccurs="0"/></xs:choice></xs:complexType></xs:element></xs:schema>'''
t=time.time()
for i in range(50): s=xmlschema.XMLSchema10(xsd)
print('build 1.0', (time.time()-t)/50)
t=time.time()
for i in range(50): s11=xmlschema.XMLSchema11(xsd)
print('build 1.1', (time.time()-t)/50)
xml='<root><a/><b/><a/></root>'
t=time.time()
for i in range(2000): s.is_valid(xml)
print('is_valid', (time.time()-t)/2000)
from xmlschema.validators.models import ModelVisitor
g=s.elements['root'].type.content
t=time.time()
for i in range(20000):
    m=ModelVisitor(g)
    for tag in 'aba':
        while m.element is not None:
            if m.match_element(tag) is not None:
                list(m.advance(True)); break
            errs=list(m.advance(False))
            if errs: break
    list(m.stop())
print('visitor', (time.time()-t)/20000)
