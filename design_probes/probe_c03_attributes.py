# C03 probe: attribute sets vs set-based reference
import xmlschema, itertools, warnings, random, sys
warnings.simplefilter('ignore')
random.seed(int(sys.argv[1]) if len(sys.argv)>1 else 0)
T='urn:t'; F='urn:f'; U='urn:u'
# name pool: local 'l' (no ns), target-qualified 'q', foreign global 'g' (declared in imported ns F), unknown ns 'u'
NAMES={'l':'l','q':f'{{{T}}}q','g':f'{{{F}}}g','u':f'{{{U}}}u'}
VALS={'ok':'5','bad':'x','eq':'05','other':'6'}
def build(version, decls, wc):
    # decls: dict name-> (use, vc) for 'l','q','g' ; wc: None or (nsattr, pc)
    parts=[]
    for n,(use,vc) in decls.items():
        vcs='' if vc is None else f' {vc[0]}="{vc[1]}"'
        uses='' if use=='optional' else f' use="{use}"'
        if n=='l': parts.append(f'<xs:attribute name="l" type="xs:integer"{uses}{vcs}/>')
        elif n=='q': parts.append(f'<xs:attribute name="q" form="qualified" type="xs:integer"{uses}{vcs}/>')
        elif n=='g': parts.append(f'<xs:attribute ref="f:g"{uses}{vcs}/>')
    if wc: parts.append(f'<xs:anyAttribute namespace="{wc[0]}" processContents="{wc[1]}"/>')
    xsd=f'''<xs:schema xmlns:xs="http://www.w3.org/2001/XMLSchema" targetNamespace="{T}" xmlns:t="{T}" xmlns:f="{F}">
<xs:import namespace="{F}" schemaLocation="f.xsd"/>
<xs:element name="root"><xs:complexType>{''.join(parts)}</xs:complexType></xs:element></xs:schema>'''
    fx=f'''<xs:schema xmlns:xs="http://www.w3.org/2001/XMLSchema" targetNamespace="{F}"><xs:attribute name="g" type="xs:integer"/><xs:attribute name="g2" type="xs:integer"/></xs:schema>'''
    cls=xmlschema.XMLSchema10 if version=='1.0' else xmlschema.XMLSchema11
    return cls([xsd, fx])
def ns_of(name): return name[1:].split('}')[0] if name[0]=='{' else ''
def wc_allows(wc, ns):
    c=wc[0]
    if c=='##any': return True
    if c=='##other': return ns not in ('',T)
    toks=c.split(); s=set()
    for t in toks: s.add('' if t=='##local' else T if t=='##targetNamespace' else t)
    return ns in s
GLOBAL_DECL={NAMES['g'], f'{{{F}}}g2'}
def ref_valid(decls, wc, inst):
    # inst: dict key->valkey
    for n,(use,vc) in decls.items():
        if use=='required' and n not in inst: return False
    for k,vk in inst.items():
        val=VALS[vk]
        if k in decls:
            use,vc=decls[k]
            if use=='prohibited':
                # prohibited: attribute not allowed (unless wildcard admits)
                if not (wc and wc_allows(wc, ns_of(NAMES[k]))): return False
                # falls to wildcard
                if not wild_ok(wc,k,val): return False
                continue
            if vk=='bad': return False
            if vc and vc[0]=='fixed' and int(val)!=int(vc[1]): return False
        else:
            if not wc or not wc_allows(wc, ns_of(NAMES[k])): return False
            if not wild_ok(wc,k,val): return False
    return True
def wild_ok(wc,k,val):
    pc=wc[1]
    if pc=='skip': return True
    declared = NAMES[k] in GLOBAL_DECL
    if pc=='strict':
        if not declared: return False
    if declared:
        try: int(val)
        except: return False
    return True
USES=['optional','required','prohibited']
VCS=[None,('fixed','5'),('default','5')]
WCS=[None]+[(c,pc) for c in ('##any','##other','##local','##targetNamespace',F,f'##local {F}') for pc in ('strict','lax','skip')]
bad=0; n=0
for trial in range(int(sys.argv[2]) if len(sys.argv)>2 else 150):
    version=random.choice(('1.0','1.1'))
    decls={}
    for nm in ('l','q','g'):
        if random.random()<0.6:
            use=random.choice(USES); vc=random.choice(VCS)
            if vc and vc[0]=='default' and use!='optional': vc=None
            if use=='prohibited' and vc and version=='1.1': vc=None
            decls[nm]=(use,vc)
    wc=random.choice(WCS)
    try: s=build(version,decls,wc)
    except Exception as e:
        continue
    for r in range(0,5):
        for keys in itertools.combinations(NAMES, r):
            for vks in itertools.product(('ok','bad','eq','other'), repeat=len(keys)):
                if random.random()>0.15: continue
                inst=dict(zip(keys,vks))
                attrs=' '.join(f'{"" if k=="l" else {"q":"t:","g":"f:","u":"u:"}[k]}{k}="{VALS[v]}"' for k,v in inst.items())
                xml=f'<t:root xmlns:t="{T}" xmlns:f="{F}" xmlns:u="{U}" {attrs}/>'
                got=s.is_valid(xml); exp=ref_valid(decls,wc,inst); n+=1
                if got!=exp and not any(decls.get(k,('',))[0]=='prohibited' for k in inst):
                    bad+=1
                    if bad<25: print('MISMATCH',version,decls,wc,inst,'impl',got,'ref',exp)
print('cases',n,'bad',bad)
