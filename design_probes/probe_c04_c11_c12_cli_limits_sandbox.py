import xmlschema, sys, os, tempfile, subprocess, shutil
from xmlschema import XMLResource, XMLSchema
tmp = tempfile.mkdtemp(prefix='probe_')
try:
    # C04 CLI exit status
    xsd = os.path.join(tmp,'s.xsd'); open(xsd,'w').write('''<xs:schema xmlns:xs="http://www.w3.org/2001/XMLSchema"><xs:element name="root"><xs:complexType><xs:sequence><xs:element name="i" type="xs:integer" maxOccurs="unbounded"/></xs:sequence></xs:complexType></xs:element></xs:schema>''')
    for n in (0,1,255,256,257,512):
        xml = os.path.join(tmp,f'd{n}.xml'); open(xml,'w').write('<root>'+'<i>x</i>'*n+'<i>1</i></root>')
        r = subprocess.run(['/venv/bin/python','-c','from xmlschema.cli import validate; validate()','--schema',xsd,xml],capture_output=True,text=True)
        print('CLI errors',n,'exit',r.returncode)
    # C12 sandbox prefix
    os.makedirs(os.path.join(tmp,'sand')); os.makedirs(os.path.join(tmp,'sand_evil'))
    open(os.path.join(tmp,'sand_evil','inc.xsd'),'w').write('<xs:schema xmlns:xs="http://www.w3.org/2001/XMLSchema"><xs:element name="evil"/></xs:schema>')
    open(os.path.join(tmp,'sand','main.xsd'),'w').write('<xs:schema xmlns:xs="http://www.w3.org/2001/XMLSchema"><xs:include schemaLocation="../sand_evil/inc.xsd"/><xs:element name="root"/></xs:schema>')
    try:
        s = XMLSchema(os.path.join(tmp,'sand','main.xsd'), allow='sandbox')
        print('sandbox: built, elements', list(s.elements))
    except Exception as e: print('sandbox', type(e).__name__, e)
    open(os.path.join(tmp,'other.xsd'),'w').write('<xs:schema xmlns:xs="http://www.w3.org/2001/XMLSchema"><xs:element name="other"/></xs:schema>')
    open(os.path.join(tmp,'sand','main2.xsd'),'w').write('<xs:schema xmlns:xs="http://www.w3.org/2001/XMLSchema"><xs:include schemaLocation="../other.xsd"/><xs:element name="root"/></xs:schema>')
    try:
        s = XMLSchema(os.path.join(tmp,'sand','main2.xsd'), allow='sandbox')
        print('sandbox2: built, elements', list(s.elements))
    except Exception as e: print('sandbox2', type(e).__name__, e)
    # C11 depth
    s = XMLSchema('''<xs:schema xmlns:xs="http://www.w3.org/2001/XMLSchema"><xs:element name="a"><xs:complexType><xs:sequence><xs:element ref="a" minOccurs="0"/></xs:sequence></xs:complexType></xs:element></xs:schema>''')
    for d in (100,300,400,450,500,900,999,1000,1001):
        xml = '<a>'*d + '</a>'*d
        try:
            print('depth',d, s.is_valid(xml))
        except BaseException as e:
            print('depth',d, type(e).__name__, str(e)[:60])
    import xmlschema.limits as L
    L.MAX_XML_DEPTH = 10
    for d in (9,10,11):
        xml = '<a>'*d + '</a>'*d
        for lazy in (False, True):
            try: print('limit10 depth',d,'lazy',lazy, s.is_valid(XMLResource(xml, lazy=lazy)))
            except BaseException as e: print('limit10 depth',d,'lazy',lazy, type(e).__name__)
    L.MAX_XML_DEPTH = 1000
    L.MAX_XML_ELEMENTS = 10
    s2 = XMLSchema(xsd)
    for n in (8,9,10):
        xml='<root>'+'<i>1</i>'*n+'</root>'
        for lazy in (False, True):
            try: print('elimit10 elements',n+1,'lazy',lazy, s2.is_valid(XMLResource(xml, lazy=lazy)))
            except BaseException as e: print('elimit10 elements',n+1,'lazy',lazy, type(e).__name__)
finally:
    shutil.rmtree(tmp)
