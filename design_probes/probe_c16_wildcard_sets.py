import xmlschema, itertools, copy, warnings
from xmlschema.validators.wildcards import XsdAnyElement, XsdAnyAttribute
warnings.simplefilter('ignore')
TNS='T'
POOL=['T','A','B']
# constraints as attribute strings
def constraints(version):
    cs=[('ns','##any'),('ns','##other'),('ns','##local'),('ns','##targetNamespace'),('ns','')]
    toks=['##local','##targetNamespace','A','B']
    for r in range(1,len(toks)+1):
        for c in itertools.combinations(toks,r):
            cs.append(('ns',' '.join(c)))
    if version=='1.1':
        for r in range(1,len(toks)+1):
            for c in itertools.combinations(toks,r):
                cs.append(('not',' '.join(c)))
    # dedupe
    return list(dict.fromkeys(cs))
UNIV=['', 'T','A','B','F']   # absent, target, pool, fresh
def denote(c):
    kind,val=c
    def tok(t): return '' if t=='##local' else ('T' if t=='##targetNamespace' else t)
    if kind=='ns':
        if val=='##any': return set(UNIV)
        if val=='##other': return {n for n in UNIV if n not in ('', 'T')}
        return {tok(t) for t in val.split()} & set(UNIV) | {tok(t) for t in val.split()}
    else:
        ex={tok(t) for t in val.split()}
        return {n for n in UNIV if n not in ex}
def build(version, c1, c2, kind):
    cls = xmlschema.XMLSchema10 if version=='1.0' else xmlschema.XMLSchema11
    def attr(c): return (f'namespace="{c[1]}"' if c[0]=='ns' else f'notNamespace="{c[1]}"')
    tag='any' if kind=='elem' else 'anyAttribute'
    if kind=='elem':
        xsd=f'''<xs:schema xmlns:xs="http://www.w3.org/2001/XMLSchema" targetNamespace="T" xmlns:t="T">
<xs:complexType name="c1"><xs:sequence><xs:any {attr(c1)} processContents="skip"/></xs:sequence></xs:complexType>
<xs:complexType name="c2"><xs:sequence><xs:any {attr(c2)} processContents="skip"/></xs:sequence></xs:complexType>
</xs:schema>'''
        s=cls(xsd)
        return s.types['c1'].content[0], s.types['c2'].content[0]
    else:
        xsd=f'''<xs:schema xmlns:xs="http://www.w3.org/2001/XMLSchema" targetNamespace="T" xmlns:t="T">
<xs:complexType name="c1"><xs:anyAttribute {attr(c1)} processContents="skip"/></xs:complexType>
<xs:complexType name="c2"><xs:anyAttribute {attr(c2)} processContents="skip"/></xs:complexType>
</xs:schema>'''
        s=cls(xsd)
        return s.types['c1'].attributes[None], s.types['c2'].attributes[None]
def allowed(w): return {n for n in UNIV if w.is_namespace_allowed(n)}
bad={}
for version in ('1.0','1.1'):
  cs=constraints(version)
  for kind in ('elem','attr'):
    for c1 in cs:
        for c2 in cs:
            try: w1,w2=build(version,c1,c2,kind)
            except Exception as e:
                bad.setdefault(('build',version,kind),[]).append((c1,c2,type(e).__name__)); continue
            s1,s2=denote(c1),denote(c2)
            if allowed(w1)!=s1: bad.setdefault(('denote',version,kind),[]).append((c1,sorted(allowed(w1)),sorted(s1)))
            # union
            u=copy.copy(w1)
            try:
                u.union(w2)
                if allowed(u)!=(s1|s2): bad.setdefault(('union',version,kind),[]).append((c1,c2,sorted(allowed(u)),sorted(s1|s2)))
            except ValueError as e:
                bad.setdefault(('union-notexpr',version,kind),[]).append((c1,c2))
            i=copy.copy(w1)
            i.intersection(w2)
            if allowed(i)!=(s1&s2): bad.setdefault(('inter',version,kind),[]).append((c1,c2,sorted(allowed(i)),sorted(s1&s2)))
            r=w1.is_restriction(w2)
            if r and not s1<=s2: bad.setdefault(('restr-unsound',version,kind),[]).append((c1,c2))
            if not r and s1<=s2: bad.setdefault(('restr-incomplete',version,kind),[]).append((c1,c2))
            if kind=='elem':
                o=w1.is_overlap(w2)
                if o!=bool(s1&s2): bad.setdefault(('overlap',version,kind),[]).append((c1,c2,o))
for k,v in sorted(bad.items()):
    print(k,len(v)); 
    for x in v[:6]: print('   ',x)
