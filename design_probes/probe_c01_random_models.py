import sys, itertools, xmlschema, warnings
from ref import *
warnings.simplefilter('ignore')
def mk(model, version):
    xsd = f'''<xs:schema xmlns:xs="http://www.w3.org/2001/XMLSchema">
<xs:element name="a" type="xs:string"/><xs:element name="b" type="xs:string"/><xs:element name="c" type="xs:string"/>
<xs:element name="root"><xs:complexType>{model}</xs:complexType></xs:element>
</xs:schema>'''
    cls = xmlschema.XMLSchema10 if version=='1.0' else xmlschema.XMLSchema11
    return cls(xsd)
OCC=[(1,1),(0,1),(0,None),(1,None),(2,2),(1,2),(0,2)]
def leaves(): 
    for n in 'ab':
        for mn,mx in OCC: yield ('e',n,mn,mx)
def groups(depth):
    if depth==0:
        yield from leaves(); return
    subs=list(groups(depth-1)) if depth>1 else list(leaves())
    for kind in 'sc':
        for k in (1,2):
            for kids in itertools.product(subs, repeat=k):
                for mn,mx in OCC:
                    yield (kind,list(kids),mn,mx)
import random
random.seed(int(sys.argv[1]) if len(sys.argv)>1 else 0)
lv=list(leaves())
d1=list(groups(1))
print(len(d1))
def rand_model():
    k=random.choice('sc')
    n=random.choice((1,2,3))
    kids=[random.choice(d1) if random.random()<0.5 else random.choice(lv) for _ in range(n)]
    mn,mx=random.choice(OCC)
    return (k,kids,mn,mx)
words=[''.join(w) for n in range(0,6) for w in itertools.product('ab',repeat=n)]
bad=0; built=0
for i in range(int(sys.argv[2]) if len(sys.argv)>2 else 300):
    m=rand_model()
    try: s=mk(to_xsd(m),'1.0')
    except xmlschema.XMLSchemaException as e:
        continue
    built+=1
    r=conv(m)
    for w in words:
        xml='<root>'+''.join(f'<{c}/>' for c in w)+'</root>'
        got=s.is_valid(xml); exp=matches(r,w)
        if got!=exp:
            bad+=1
            print('MISMATCH',to_xsd(m),repr(w),'impl',got,'ref',exp)
            break
print('built',built,'bad',bad)
