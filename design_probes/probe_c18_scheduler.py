import sys, threading, random, time, warnings
warnings.simplefilter('ignore')
import xmlschema
PKG='/repo/xmlschema'
class Sched:
    def __init__(self, n, seed):
        self.n=n; self.rng=random.Random(seed); self.turn=0
        self.ev=[threading.Event() for _ in range(n)]; self.done=[False]*n; self.switches=0; self.points=0
        self.tid={}   # thread ident -> index
        self.active=False
    def start(self): self.active=True; self.ev[0].set()
    def wait_turn(self,i):
        self.ev[i].wait(); 
    def yield_point(self):
        if not self.active: return
        i=self.tid.get(threading.get_ident())
        if i is None: return
        self.points+=1
        if self.rng.random()<0.05:
            cands=[j for j in range(self.n) if not self.done[j] and j!=i]
            if cands:
                j=self.rng.choice(cands); self.switches+=1
                self.ev[i].clear(); self.turn=j; self.ev[j].set(); self.ev[i].wait()
    def force_switch(self):
        i=self.tid.get(threading.get_ident())
        cands=[j for j in range(self.n) if not self.done[j] and j!=i]
        if not cands: time.sleep(0.001); return
        j=self.rng.choice(cands); self.switches+=1
        self.ev[i].clear(); self.turn=j; self.ev[j].set(); self.ev[i].wait()
    def finish(self,i):
        self.done[i]=True
        cands=[j for j in range(self.n) if not self.done[j]]
        if cands: j=cands[0]; self.turn=j; self.ev[j].set()
def run(seed):
    xsd='''<xs:schema xmlns:xs="http://www.w3.org/2001/XMLSchema"><xs:element name="root"><xs:complexType><xs:sequence><xs:element name="i" type="xs:integer" maxOccurs="unbounded"/></xs:sequence></xs:complexType></xs:element></xs:schema>'''
    s=xmlschema.XMLSchema(xsd, build=False)
    docs=['<root><i>1</i><i>2</i></root>','<root><i>x</i></root>','<root/>']
    sched=Sched(3,seed); results=[None]*3
    class CoopLock:
        def __init__(self): self._l=threading.Lock()
        def acquire(self, blocking=True, timeout=-1):
            while not self._l.acquire(False):
                if not blocking: return False
                sched.force_switch()
            return True
        def release(self): self._l.release()
        def __enter__(self): self.acquire(); return self
        def __exit__(self,*a): self.release()
        def locked(self): return self._l.locked()
    object.__setattr__(s.maps,'_build_lock',CoopLock())
    object.__setattr__(s.maps.cache,'_lock',CoopLock())
    def worker(i):
        sched.tid[threading.get_ident()]=i
        sched.wait_turn(i)
        try:
            s.build()
            results[i]=[e.reason[:30] for e in s.iter_errors(docs[i])]
        except Exception as e: results[i]=('EXC',type(e).__name__,str(e)[:50])
        finally: sched.finish(i)
    mon=sys.monitoring; TOOL=mon.DEBUGGER_ID
    mon.use_tool_id(TOOL,'sched')
    def on_start(code, off):
        if code.co_filename.startswith(PKG): sched.yield_point()
        else: return mon.DISABLE
    mon.register_callback(TOOL, mon.events.PY_START, on_start)
    mon.set_events(TOOL, mon.events.PY_START)
    ths=[threading.Thread(target=worker,args=(i,)) for i in range(3)]
    for t in ths: t.start()
    t0=time.time(); sched.start()
    for t in ths: t.join(30)
    mon.set_events(TOOL,0); mon.free_tool_id(TOOL)
    return results, sched.points, sched.switches, time.time()-t0
for seed in range(3):
    print(seed, run(seed))
print('again 0', run(0)[1:3])
