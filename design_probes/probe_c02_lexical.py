import xmlschema
s = xmlschema.XMLSchema('''<xs:schema xmlns:xs="http://www.w3.org/2001/XMLSchema">
<xs:element name="i" type="xs:integer"/><xs:element name="d" type="xs:decimal"/>
<xs:element name="y" type="xs:gYear"/><xs:element name="b" type="xs:boolean"/>
<xs:element name="f" type="xs:float"/><xs:element name="dt" type="xs:dateTime"/>
<xs:element name="dd" type="xs:date"/><xs:element name="u" type="xs:unsignedByte"/>
</xs:schema>''')
def t(el, txt):
    xml=f'<{el}>{txt}</{el}>'
    try:
        v=s.is_valid(xml); 
        try: d=s.decode(xml, validation='lax')
        except Exception as e: d=('EXC',type(e).__name__)
        print(el, repr(txt), v, d)
    except Exception as e:
        print(el, repr(txt), 'EXC', type(e).__name__, e)
for x in ['1_000','１２','12 1',' 12 ','+5','--5','1.0','1e3','0x10','']: t('i',x)
for x in ['12 1','1_0.5','１.５','.5','5.','+.5','.','1e3','INF','NaN',' 1.5 ']: t('d',x)
for x in ['2020','99999999999','1000000000000000000000','-0001','0000','02020']: t('y',x)
for x in ['true','1','True','TRUE',' true ','01']: t('b',x)
for x in ['1_0','1e3','inf','INF','+INF','nan','１']: t('f',x)
for x in ['2020-02-30T00:00:00','2020-02-29T24:00:00','2020-02-29T24:00:01','99999999999-01-01T00:00:00','2020-01-01T00:00:00+14:00','2020-01-01T00:00:00+14:01','2020-01-01T00:00:00+15:00']: t('dt',x)
for x in ['256','255','-0','+255','2_5']: t('u',x)
