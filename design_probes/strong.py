from ref import *
def branches(r,a):
    """set of non-NUL residuals reachable by consuming a, one per derivation path (no Alt merging of different paths)"""
    t=r[0]
    if t in('eps','nul'): return set()
    if t=='sym': return {EPS} if r[1]==a else set()
    if t=='any': return {EPS}
    if t=='cat':
        out={cat(d,r[2]) for d in branches(r[1],a)}
        if nullable(r[1]): out|=branches(r[2],a)
        return {x for x in out if x!=NUL}
    if t=='alt': return branches(r[1],a)|branches(r[2],a)
    if t=='rep':
        _,x,mn,mx=r
        nmn=max(mn-1,0); nmx=None if mx is None else mx-1
        if nullable(x): nmn=0
        rest=rep(x,nmn,nmx)
        out={cat(d,rest) for d in branches(x,a)}
        # empty iterations: if x nullable, a may also be consumed by a later iteration -> covered? deriv treats rep(x) with nullable x by one unfolding only; later-iteration consumption yields residual with fewer remaining iterations
        if nullable(x) and (mx is None or mx>1):
            k=1
            lim = 3 if mx is None else mx-1
            while k<=lim:
                nm=None if mx is None else mx-1-k
                if nm is not None and nm<0: break
                out|={cat(d,rep(x,0,nm)) for d in branches(x,a)}
                k+=1
        return {x for x in out if x!=NUL}
    if t=='all':
        out=set(); ks=r[1]
        for i,k in enumerate(ks):
            for d in branches(k,a):
                rest=ks[:i]+ks[i+1:]
                out.add(cat(d,('all',rest) if rest else EPS))
        return out
def strongly_det(r0, alphabet='abc', limit=400):
    seen={r0}; todo=[r0]
    while todo:
        r=todo.pop()
        for a in alphabet:
            b=branches(r,a)
            if len(b)>1: return False
            d=deriv(r,a)
            if d!=NUL and d not in seen:
                seen.add(d); todo.append(d)
                if len(seen)>limit: return False
    return True
