# C07 probe: substitution groups, nil, fixed
import xmlschema, warnings, random, sys, itertools
warnings.simplefilter('ignore')
random.seed(int(sys.argv[1]) if len(sys.argv)>1 else 0)
XSI='http://www.w3.org/2001/XMLSchema-instance'
def gen():
    # types: T0 base; T1 ext of T0; T2 restr of T0
    head_block=random.choice([None,'','substitution','extension','restriction','#all','extension substitution'])
    schema_block=random.choice([None,None,'substitution','extension','#all'])
    head_abs=random.random()<0.3
    # members: m1 (subst h) type in T0/T1/T2 ; m2 (subst m1) type derived of m1's
    m1t=random.choice(['T0','T1','T2']); m1abs=random.random()<0.3
    m1block=random.choice([None,'','substitution','extension'])
    m2t={'T0':random.choice(['T0','T1','T2']),'T1':'T1','T2':'T2'}[m1t]; m2abs=random.random()<0.2
    return dict(head_block=head_block,schema_block=schema_block,head_abs=head_abs,m1t=m1t,m1abs=m1abs,m1block=m1block,m2t=m2t,m2abs=m2abs)
def xsd_of(g):
    a=lambda n,v: '' if v is None else f' {n}="{v}"'
    return f'''<xs:schema xmlns:xs="http://www.w3.org/2001/XMLSchema"{a('blockDefault',g['schema_block'])}>
<xs:complexType name="T0"><xs:sequence><xs:element name="a" type="xs:string" minOccurs="0"/></xs:sequence></xs:complexType>
<xs:complexType name="T1"><xs:complexContent><xs:extension base="T0"><xs:sequence><xs:element name="x" type="xs:string" minOccurs="0"/></xs:sequence></xs:extension></xs:complexContent></xs:complexType>
<xs:complexType name="T2"><xs:complexContent><xs:restriction base="T0"><xs:sequence><xs:element name="a" type="xs:string" minOccurs="0"/></xs:sequence></xs:restriction></xs:complexContent></xs:complexType>
<xs:element name="h" type="T0"{a('block',g['head_block'])}{' abstract="true"' if g['head_abs'] else ''}/>
<xs:element name="m1" type="{g['m1t']}" substitutionGroup="h"{a('block',g['m1block'])}{' abstract="true"' if g['m1abs'] else ''}/>
<xs:element name="m2" type="{g['m2t']}" substitutionGroup="m1"{' abstract="true"' if g['m2abs'] else ''}/>
<xs:element name="root"><xs:complexType><xs:sequence><xs:element ref="h"/></xs:sequence></xs:complexType></xs:element>
</xs:schema>'''
def eff(b, sb):
    v = sb if b is None else b
    if v is None: v=''
    if v=='#all': return {'extension','restriction','substitution'}
    return set(v.split())
METH={'T0':None,'T1':'extension','T2':'restriction'}
def ref(g, name):
    hb=eff(g['head_block'],g['schema_block'])
    tb=eff(None,g['schema_block'])-{'substitution'}   # T0's prohibited substitutions default to blockDefault
    if name=='h': return not g['head_abs']
    if 'substitution' in hb: return False
    if name=='m1':
        if g['m1abs']: return False
        m=METH[g['m1t']]
        return not (m and m in (hb|tb))
    if name=='m2':
        if g['m2abs']: return False
        # chain m2 -> m1 -> h ; m1's block substitution prevents m2 substituting m1 (and thus h)
        m=METH[g['m2t']]
        if m and m in (hb|tb): return False
        return True
bad=0;n=0;skipped=0
for t in range(int(sys.argv[2]) if len(sys.argv)>2 else 300):
    g=gen()
    for cls in (xmlschema.XMLSchema10, xmlschema.XMLSchema11):
        try: s=cls(xsd_of(g))
        except Exception as e: skipped+=1; continue
        for name in ('h','m1','m2'):
            got=s.is_valid(f'<root><{name}/></root>'); exp=ref(g,name); n+=1
            if got!=exp:
                bad+=1
                if bad<25: print('MISMATCH',cls.__name__,name,'impl',got,'ref',exp,g)
print('cases',n,'bad',bad,'skipped',skipped)
