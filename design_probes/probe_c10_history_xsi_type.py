import xmlschema, warnings
warnings.simplefilter('ignore')
def mk(sel):
    return f'''<xs:schema xmlns:xs="http://www.w3.org/2001/XMLSchema">
<xs:complexType name="T1"><xs:sequence/></xs:complexType>
<xs:complexType name="T2"><xs:complexContent><xs:extension base="T1"><xs:sequence><xs:element name="c" maxOccurs="unbounded"><xs:complexType><xs:attribute name="k" type="xs:integer"/></xs:complexType></xs:element></xs:sequence></xs:extension></xs:complexContent></xs:complexType>
<xs:element name="X"><xs:complexType><xs:sequence><xs:element ref="e" maxOccurs="unbounded"/></xs:sequence></xs:complexType>
  <xs:unique name="UX"><xs:selector xpath="{sel}"/><xs:field xpath="@k"/></xs:unique></xs:element>
<xs:element name="Y"><xs:complexType><xs:sequence><xs:element ref="e" maxOccurs="unbounded"/></xs:sequence></xs:complexType>
  <xs:unique name="UY"><xs:selector xpath="{sel}"/><xs:field xpath="@k"/></xs:unique></xs:element>
<xs:element name="e" type="T1"/>
</xs:schema>'''
XSI='xmlns:xsi="http://www.w3.org/2001/XMLSchema-instance"'
dX=f'<X {XSI}><e xsi:type="T2"><c k="1"/><c k="01"/></e></X>'
dY=f'<Y {XSI}><e xsi:type="T2"><c k="1"/><c k="01"/></e></Y>'
def errs(s,d): return [e.reason for e in s.iter_errors(d)]
for sel in ('e/c','.//c','*/c','e/*'):
    xsd=mk(sel)
    f=xmlschema.XMLSchema(xsd); a=errs(f,dX)
    f=xmlschema.XMLSchema(xsd); b=errs(f,dY)
    s=xmlschema.XMLSchema(xsd); c=errs(s,dX); d=errs(s,dY); e=errs(s,dX)
    print(sel,'| fresh X',len(a),'fresh Y',len(b),'| hist X',len(c),'Y after X',len(d),'X again',len(e))
