------------------------------- MODULE AttrDefs -------------------------------
(* Validation of an element's attribute set against attribute uses, value      *)
(* constraints and an attribute wildcard (Element Locally Valid (Complex Type) *)
(* clauses 3 and 4, Attribute Locally Valid (Use), Wildcard allows Namespace   *)
(* Name; processContents strict / lax / skip).                                 *)
(*                                                                           *)
(* Names: "n0" unqualified x, "nT" target-namespace y (a global attribute t:y  *)
(* exists), "nA" x in a declared foreign namespace (a global a:x exists),      *)
(* "nF" x in a namespace no schema document knows, "nU" u in the TARGET          *)
(* namespace without any global declaration (a loaded namespace, an unknown name). *)
(* All declared / global attributes have type xs:integer; an instance value is *)
(* a class: "v1" (1), "v01" (01: the same value in another lexical form),      *)
(* "v2" (another value), "vx" (not an integer); value constraints are "1".     *)
EXTENDS XsdBase, TLC, Json

CONSTANTS Small     \* TRUE: reduced value classes for the undeclarable names

AttrNames == {"n0", "nT", "nA", "nF", "nU"}
NsOf(n) == CASE n = "n0" -> "" [] n = "nT" -> "T" [] n = "nA" -> "A" [] n = "nF" -> "F" [] n = "nU" -> "T"
HasGlobal(n) == n \in {"nT", "nA"}

(* a declaration slot: "none" or [use, vc] *)
NoDecl == [use |-> "none", vc |-> "none"]
NoWild == [c |-> "none", pc |-> "none"]
Decl == {NoDecl} \cup {[use |-> u, vc |-> v] :
            u \in {"optional"}, v \in {"none", "fixed", "default"}}
        \cup {[use |-> "required", vc |-> v] : v \in {"none", "fixed"}}
        \cup {[use |-> "prohibited", vc |-> "none"]}
Wild == {NoWild} \cup {[c |-> c, pc |-> p] : c \in {"any", "other", "local", "tns"},
                                            p \in {"strict", "lax", "skip"}}
ValClass == {"absent", "v1", "v01", "v2", "vx"}
SmallClass == {"absent", "v1", "vx"}
Inst == [n0 : ValClass, nT : ValClass,
         nA : IF Small THEN SmallClass ELSE ValClass, nF : IF Small THEN SmallClass ELSE ValClass,
         nU : {"absent", "v1"}]

IsInt(v)  == v \in {"v1", "v01", "v2"}
ValueOf(v) == IF v = "v01" THEN "v1" ELSE v                \* value space: 01 = 1
Admits(w, ns) == CASE w.c = "none"  -> FALSE
                   [] w.c = "any"   -> TRUE
                   [] w.c = "other" -> ns \notin {"", "T"}
                   [] w.c = "local" -> ns = ""
                   [] w.c = "tns"   -> ns = "T"

(* the attribute USE of a slot: a prohibited use is no use at all *)
Use(d) == IF d.use = "prohibited" THEN NoDecl ELSE d
DeclOf(d0, dT, n) == CASE n = "n0" -> Use(d0) [] n = "nT" -> Use(dT) [] OTHER -> NoDecl

(* one present attribute *)
AttrOK(d0, dT, w, n, v) ==
  LET d == DeclOf(d0, dT, n) IN
  IF d # NoDecl
    THEN IsInt(v) /\ (d.vc = "fixed" => ValueOf(v) = "v1")
    ELSE /\ w # NoWild /\ Admits(w, NsOf(n))
         /\ CASE w.pc = "skip"   -> TRUE
              [] w.pc = "lax"    -> HasGlobal(n) => IsInt(v)
              [] w.pc = "strict" -> HasGlobal(n) /\ IsInt(v)

ValidAttrs(d0, dT, w, i) ==
  /\ \A n \in AttrNames : i[n] # "absent" => AttrOK(d0, dT, w, n, i[n])
  /\ Use(d0).use = "required" => i.n0 # "absent"
  /\ Use(dT).use = "required" => i.nT # "absent"

(* The attribute declarations that count are those of the GOVERNING type: when xsi:type names a  *)
(* SIMPLE type (on an element declared xs:anyType) the element may carry no attribute at all     *)
(* besides the xsi: ones; xs:anyType itself has the attribute wildcard ##any / lax.               *)
ValidUnderSimpleType(i) == \A n \in AttrNames : i[n] = "absent"
ValidUnderAnyType(i) == ValidAttrs(NoDecl, NoDecl, [c |-> "any", pc |-> "lax"], i)
ASSUME \A i \in Inst : ValidUnderSimpleType(i) => \A w \in Wild : ValidAttrs(NoDecl, NoDecl, w, i)

(* decoded attribute dictionary of a VALID element: name -> "int1" | "int2" |   *)
(* "raw:<class>" (text kept as is: no declaration governs the value)           *)
DecodedVal(d0, dT, w, n, v) ==
  IF DeclOf(d0, dT, n) # NoDecl \/ (w # NoWild /\ w.pc # "skip" /\ HasGlobal(n))
    THEN (IF ValueOf(v) = "v1" THEN "int1" ELSE "int2")
    ELSE v
(* an attribute that is only admitted by a skip wildcard is not processed and    *)
(* (with the default options) not reported in the decoded data                 *)
Skipped(d0, dT, w, n) == DeclOf(d0, dT, n) = NoDecl /\ w.pc = "skip"
Decoded(d0, dT, w, i, useDefaults) ==
  LET present == {n \in AttrNames : i[n] # "absent" /\ ~Skipped(d0, dT, w, n)}
      added == {n \in {"n0", "nT"} : i[n] = "absent" /\
                  LET d == DeclOf(d0, dT, n) IN
                    d # NoDecl /\ (d.vc = "fixed" \/ (d.vc = "default" /\ useDefaults))}
  IN [n \in present \cup added |->
        IF n \in present THEN DecodedVal(d0, dT, w, n, i[n]) ELSE "int1"]

(* filling of missing attributes requested: every absent attribute that has an    *)
(* attribute USE and got no value from a fixed / default constraint is reported     *)
(* with the null value                                                             *)
DecodedFill(d0, dT, w, i, useDefaults) ==
  LET base == Decoded(d0, dT, w, i, useDefaults)
      nulls == {n \in {"n0", "nT"} : n \notin DOMAIN base /\ i[n] = "absent" /\ DeclOf(d0, dT, n) # NoDecl}
  IN [n \in DOMAIN base \cup nulls |-> IF n \in DOMAIN base THEN base[n] ELSE "null"]

------------------------------------------------------------------------------
(* Laws (obligation A) *)
WiderWildcardAdmitsMore ==      \* "any" admits whatever a narrower constraint admits
  \A d0 \in Decl : \A dT \in Decl : \A p \in {"strict", "lax", "skip"} :
    \A c \in {"other", "local", "tns"} : \A i \in [n0 : {"absent", "v1"}, nT : {"absent", "vx"},
                                                  nA : {"absent", "v1"}, nF : {"absent", "v1"}, nU : {"absent"}] :
      ValidAttrs(d0, dT, [c |-> c, pc |-> p], i) => ValidAttrs(d0, dT, [c |-> "any", pc |-> p], i)
SkipAdmitsMoreThanLaxThanStrict ==
  \A d0 \in Decl : \A dT \in Decl : \A c \in {"any", "other", "local", "tns"} :
    \A i \in [n0 : {"absent", "vx"}, nT : {"absent", "vx", "v1"},
              nA : {"absent", "vx", "v1"}, nF : {"absent", "v1"}, nU : {"absent"}] :
      /\ ValidAttrs(d0, dT, [c |-> c, pc |-> "strict"], i) => ValidAttrs(d0, dT, [c |-> c, pc |-> "lax"], i)
      /\ ValidAttrs(d0, dT, [c |-> c, pc |-> "lax"], i) => ValidAttrs(d0, dT, [c |-> c, pc |-> "skip"], i)
(* restricting uses (optional -> required, adding fixed) only narrows: feeds C14 *)
TighterUseNarrows ==
  \A dT \in Decl : \A w \in Wild : \A i \in [n0 : ValClass, nT : {"absent", "v1"},
                                             nA : {"absent"}, nF : {"absent"}, nU : {"absent"}] :
    /\ ValidAttrs([use |-> "required", vc |-> "none"], dT, w, i)
         => ValidAttrs([use |-> "optional", vc |-> "none"], dT, w, i)
    /\ ValidAttrs([use |-> "optional", vc |-> "fixed"], dT, w, i)
         => ValidAttrs([use |-> "optional", vc |-> "none"], dT, w, i)
FillOnlyAdds ==
  \A d0 \in Decl : \A dT \in Decl : \A i \in [n0 : {"absent", "v1"}, nT : {"absent", "v2"}, nA : {"absent"}, nF : {"absent"}, nU : {"absent"}] :
    \A u \in BOOLEAN :
      LET a == Decoded(d0, dT, NoWild, i, u)  b == DecodedFill(d0, dT, NoWild, i, u) IN
        /\ DOMAIN a \subseteq DOMAIN b /\ \A n \in DOMAIN a : a[n] = b[n]
        /\ \A n \in DOMAIN b \ DOMAIN a : b[n] = "null"
ASSUME FillOnlyAdds
ASSUME WiderWildcardAdmitsMore
ASSUME SkipAdmitsMoreThanLaxThanStrict
ASSUME TighterUseNarrows
=============================================================================
