------------------------------- MODULE Threads -------------------------------
(* C18: several threads share one schema object and race to build it.           *)
(* XsdGlobals.build() is a double-checked lock:                                 *)
(*     c1  read the built flag without the lock      -> done if set             *)
(*     aq  acquire the build lock                                               *)
(*     c2  read the flag again under the lock        -> release if set          *)
(*     b1  clear the maps           b2  load/build the global maps              *)
(*     sf  set the flag             rl  release the lock                        *)
(* After build() returns a thread USES the maps (validation): it must find     *)
(* them complete.  One action per step; the lock is the only synchronisation.   *)
(* Named deviations (for the non-vacuity self-test, never the default):         *)
(*   Recheck = FALSE   the second test of the flag is removed                   *)
(*   FlagFirst = TRUE  the flag is set before the maps are built                *)
EXTENDS Naturals, FiniteSets, Sequences, TLC

CONSTANTS N, Recheck, FlagFirst
Thr == 1..N
VARIABLES pc, built, holder, maps, builds, saw
vars == <<pc, built, holder, maps, builds, saw>>

Init == /\ pc = [t \in Thr |-> "c1"] /\ built = FALSE /\ holder = 0
        /\ maps = "empty" /\ builds = 0 /\ saw = [t \in Thr |-> "-"]

C1(t) == /\ pc[t] = "c1"
         /\ pc' = [pc EXCEPT ![t] = IF built THEN "use" ELSE "aq"]
         /\ UNCHANGED <<built, holder, maps, builds, saw>>
Aq(t) == /\ pc[t] = "aq" /\ holder = 0
         /\ holder' = t /\ pc' = [pc EXCEPT ![t] = "c2"]
         /\ UNCHANGED <<built, maps, builds, saw>>
C2(t) == /\ pc[t] = "c2"
         /\ pc' = [pc EXCEPT ![t] = IF built /\ Recheck THEN "rl" ELSE "b1"]
         /\ UNCHANGED <<built, holder, maps, builds, saw>>
B1(t) == /\ pc[t] = "b1"
         /\ maps' = "partial" /\ builds' = builds + 1
         /\ built' = (IF FlagFirst THEN TRUE ELSE built)
         /\ pc' = [pc EXCEPT ![t] = "b2"]
         /\ UNCHANGED <<holder, saw>>
B2(t) == /\ pc[t] = "b2"
         /\ maps' = "full" /\ pc' = [pc EXCEPT ![t] = "sf"]
         /\ UNCHANGED <<built, holder, builds, saw>>
Sf(t) == /\ pc[t] = "sf"
         /\ built' = TRUE /\ pc' = [pc EXCEPT ![t] = "rl"]
         /\ UNCHANGED <<holder, maps, builds, saw>>
Rl(t) == /\ pc[t] = "rl" /\ holder = t
         /\ holder' = 0 /\ pc' = [pc EXCEPT ![t] = "use"]
         /\ UNCHANGED <<built, maps, builds, saw>>
Use(t) == /\ pc[t] = "use"
          /\ saw' = [saw EXCEPT ![t] = maps] /\ pc' = [pc EXCEPT ![t] = "done"]
          /\ UNCHANGED <<built, holder, maps, builds>>
Next == \E t \in Thr : C1(t) \/ Aq(t) \/ C2(t) \/ B1(t) \/ B2(t) \/ Sf(t) \/ Rl(t) \/ Use(t)
Spec == Init /\ [][Next]_vars /\ \A t \in Thr : WF_vars(C1(t) \/ Aq(t) \/ C2(t) \/ B1(t) \/ B2(t) \/ Sf(t) \/ Rl(t) \/ Use(t))

BuiltOnce == builds <= 1
NoPartialUse == \A t \in Thr : saw[t] \in {"-", "full"}
MutualExclusion == \A t \in Thr : pc[t] \in {"c2", "b1", "b2", "sf", "rl"} => holder = t
FlagMeansFull == built => maps = "full" \/ FlagFirst
AllDone == <>(\A t \in Thr : pc[t] = "done")
=============================================================================
