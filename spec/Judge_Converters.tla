--------------------------- MODULE Judge_Converters ---------------------------
(* Batch judge: the trees returned by encode() (abstracted to flat node lists by   *)
(* the harness) are judged by Converters!Valid.  Input: JSON array of node lists.  *)
EXTENDS Converters
Trees == JsonDeserialize(IOEnv.TRACE_FILE)
Fix(ns) == [i \in DOMAIN ns |-> [path |-> ns[i].path, name |-> ns[i].name,
                                 attrs |-> {<<ns[i].attrs[k][1], ns[i].attrs[k][2]>> : k \in DOMAIN ns[i].attrs},
                                 text |-> ns[i].text]]
ASSUME PrintT(ToJson([verdicts |-> [i \in DOMAIN Trees |-> Valid(Fix(Trees[i]))]]))
=============================================================================
