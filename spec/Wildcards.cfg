SPECIFICATION Spec
INVARIANT ClauseAgreesWithSets
CHECK_DEADLOCK FALSE
