SPECIFICATION OCSpec
INVARIANT OCAgree
INVARIANT OCExtends
CONSTRAINT EmitOC
CHECK_DEADLOCK FALSE
