--------------------------- MODULE WildcardsSpecial ---------------------------
(* C16, XSD 1.1: the two special members of notQName.  "##defined" removes from   *)
(* a wildcard the names that have a GLOBAL declaration (elements for xs:any,        *)
(* attributes for xs:anyAttribute); "##definedSibling" removes the names of the     *)
(* element declarations of the SAME content model (xs:any only).  A name is of      *)
(* kind "plain" (no declaration), "global", "sibling" (a local declaration of the   *)
(* model) or "both" (a global declaration referenced by the model).                 *)
EXTENDS TLC, Json, FiniteSets
Flags == SUBSET {"defined", "sibling"}
Kinds == {"plain", "global", "sibling", "both"}
Admits(f, k) == /\ ~("defined" \in f /\ k \in {"global", "both"})
                /\ ~("sibling" \in f /\ k \in {"sibling", "both"})
(* more flags never admit more *)
ASSUME \A f \in Flags : \A g \in Flags : \A k \in Kinds : f \subseteq g /\ Admits(g, k) => Admits(f, k)
ASSUME PrintT(ToJson([table |-> "elements", rows |-> {[flags |-> f, kind |-> k, ok |-> Admits(f, k)] : f \in Flags, k \in Kinds}]))
ASSUME PrintT(ToJson([table |-> "attributes",
                      rows |-> {[flags |-> f, kind |-> k, ok |-> Admits(f, k)] : f \in SUBSET {"defined"}, k \in {"plain", "global"}}]))
VARIABLE x
Init == x = 0
Next == FALSE /\ UNCHANGED x
Spec == Init /\ [][Next]_x
=============================================================================
