SPECIFICATION Spec
INVARIANT HistoryIndependent
INVARIANT FreshIsIntended
PROPERTY Monotone
CHECK_DEADLOCK FALSE
