SPECIFICATION Spec
INVARIANT Agree
INVARIANT PruneSubset
INVARIANT PruneOnlyMixed
CHECK_DEADLOCK FALSE
