--------------------------- MODULE Trace_ContentModel ---------------------------
(* Batch validation of REAL validations against the content-model machine.          *)
(* For every element with element-only content of every corpus instance the driver   *)
(* records: the content model of its governing type (projected into the vocabulary   *)
(* of ContentModel.tla; substitution groups and wildcards become explicit name sets),*)
(* the children's names, the particle each child was attributed to (taken from the   *)
(* public validation_hook; <<0>> when it cannot be observed), and whether the        *)
(* implementation reported a content-model error for that element.                   *)
(* Trace: [m, ev |-> <<[t, p]...>>, valid].  The machine must be able to consume the *)
(* children with the logged attribution; the logged verdict must be Accepting.       *)
EXTENDS ContentModel, IOUtils

Traces == JsonDeserialize(IOEnv.TRACE_FILE)
ASSUME TLCSet(1, {})
ASSUME TLCSet(2, {})
VARIABLES tid, l, why
tvars == <<vars, tid, l, why>>

RECURSIVE Fix(_)
(* JSON arrays come back as sequences: nothing to convert except nested kids *)
Fix(m) == m
Ev(i) == Traces[tid].ev[i]
Unknown == <<0>>

TInit == /\ tid \in 1..Len(Traces) /\ l = 1 /\ why = "ok"
         /\ model = Traces[tid].m /\ word = <<>> /\ attr = <<>>
         /\ cfgs = {Conv(Traces[tid].m, <<>>)} /\ lang = {Conv(Traces[tid].m, <<>>)}
TStep == /\ l <= Len(Traces[tid].ev) /\ why = "ok"
         /\ LET e == Ev(l) IN
              /\ cfgs' = Step(cfgs, e.t) /\ lang' = StepLang(lang, e.t)
              /\ word' = Append(word, e.t) /\ attr' = Append(attr, Attrib(cfgs, e.t))
              /\ why' = IF Traces[tid].valid /\ Step(cfgs, e.t) = {}
                          THEN "the specification cannot consume this child, the implementation reported no error"
                        ELSE IF Traces[tid].valid /\ e.p # Unknown /\ e.p \notin Attrib(cfgs, e.t)
                          THEN "child attributed to a particle the specification does not allow"
                        ELSE "ok"
         /\ l' = l + 1 /\ UNCHANGED <<model, tid>>
TEnd == /\ l = Len(Traces[tid].ev) + 1 /\ why = "ok"
        /\ why' = IF Traces[tid].valid = Accepting(cfgs) THEN "done"
                  ELSE IF Traces[tid].valid THEN "implementation accepted an incomplete / invalid child sequence"
                  ELSE "implementation rejected a child sequence of the language"
        /\ l' = l + 1 /\ UNCHANGED <<vars, tid>>
TSpec == TInit /\ [][TStep \/ TEnd]_tvars

Mark == /\ (why = "done" => TLCSet(1, TLCGet(1) \cup {tid}))
        /\ (why \notin {"ok", "done"} => TLCSet(2, TLCGet(2) \cup {<<tid, l - 1, why>>}))
Post == /\ PrintT(<<"accepted", Cardinality(TLCGet(1)), "of", Len(Traces)>>)
        /\ PrintT(<<"rejected", (1..Len(Traces)) \ TLCGet(1)>>)
        /\ PrintT(<<"reasons", TLCGet(2)>>)
=============================================================================
