-------------------------------- MODULE Defuse --------------------------------
(* C13 - defused parsing.  The prolog of a document is a sequence of DTD items     *)
(* followed by the first start tag.  When defusing applies (always; or for         *)
(* non-local / remote data under "nonlocal" / "remote"), the first forbidden item  *)
(* refuses the document before anything is expanded or fetched; documents without  *)
(* such items are parsed.                                                          *)
EXTENDS XsdBase, TLC, Json

Items == {"intEntity", "extEntity", "paramEntity", "unparsedEntity", "extSubsetSystem",
          "extSubsetPublic", "harmlessDecl", "comment", "pi"}
Forbidden == {"intEntity", "extEntity", "paramEntity", "unparsedEntity", "extSubsetSystem",
              "extSubsetPublic"}
Defuses == {"always", "remote", "nonlocal", "never"}
Localities == {"local", "remote", "none"}       \* class of the resource's URL; data (text / bytes / streams) has
                                                \* the class of the base URL supplied with it, "none" without one
(* The class is decided by the URL scheme: "local" = no scheme, file:, or a drive letter; "remote" = EVERY  *)
(* other scheme (http, https, ftp, ftps, s3, ...) - there is no list of well-known remote schemes.       *)
Applies(defuse, loc) == CASE defuse = "always"   -> TRUE
                          [] defuse = "never"    -> FALSE
                          [] defuse = "remote"   -> loc = "remote"
                          [] defuse = "nonlocal" -> loc # "local"

(* The character encoding of the document is part of the scenario and of NO rule below: what is refused and *)
(* what is parsed does not depend on how the bytes spell the prolog.                                       *)
Encodings == {"utf-8", "utf-16", "latin-1"}
VARIABLES defuse, locality, prolog, phase, expanded, outcome, encoding
dvars == <<defuse, locality, prolog, phase, expanded, outcome, encoding>>
CONSTANTS MaxItems

DInit == /\ defuse \in Defuses /\ locality \in Localities /\ encoding \in Encodings
         /\ prolog = <<>> /\ phase = "prolog" /\ expanded = FALSE /\ outcome = "-"
(* the parser meets one more prolog item *)
DtdItem(k) == /\ phase = "prolog" /\ Len(prolog) < MaxItems
              /\ prolog' = Append(prolog, k)
              /\ IF Applies(defuse, locality) /\ k \in Forbidden
                   THEN phase' = "end" /\ outcome' = "refused" /\ UNCHANGED expanded
                   ELSE /\ UNCHANGED <<phase, outcome>>
                        /\ expanded' = (expanded \/ k \in {"intEntity", "paramEntity"})
              /\ UNCHANGED <<defuse, locality, encoding>>
StartTag == /\ phase = "prolog"
            /\ phase' = "end" /\ outcome' = "parsed"
            /\ UNCHANGED <<defuse, locality, prolog, expanded, encoding>>
DNext == StartTag \/ \E k \in Items : DtdItem(k)
DSpec == DInit /\ [][DNext]_dvars

RefusedBeforeExpansion ==
  (Applies(defuse, locality) /\ \E i \in DOMAIN prolog : prolog[i] \in Forbidden)
     => (outcome = "refused" /\ ~expanded)
HarmlessParsed == (phase = "end" /\ \A i \in DOMAIN prolog : prolog[i] \notin Forbidden) => outcome = "parsed"
NeverMeansNever == (defuse = "never" /\ phase = "end") => outcome = "parsed"
DEmit == IF phase = "end"
         THEN PrintT(ToJson([defuse |-> defuse, locality |-> locality, prolog |-> prolog,
                             outcome |-> outcome, encoding |-> encoding]))
         ELSE TRUE
=============================================================================
