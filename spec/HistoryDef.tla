------------------------------ MODULE HistoryDef ------------------------------
(* C10, third scenario: identity-constraint fields whose value comes from a      *)
(* DEFAULT that depends on the dynamic type.                                     *)
(*                                                                            *)
(* <items> holds two <item> elements declared with type Base (no attribute       *)
(* code); the derived types D1 / D2 add code with default "X" / "Y"; a unique    *)
(* constraint on items selects item and reads @code.  A document is a pair of    *)
(* items [xt, code]; the field value of an item is its code attribute or, when   *)
(* absent, the default of ITS OWN dynamic type.  The document is invalid exactly  *)
(* when both field values are equal.                                            *)
(*                                                                            *)
(* Variant "intended": the verdict is a function of the document.               *)
(* Variant "cached": the field readers (with the defaults) built for the first    *)
(*   dynamic type seen on the declaration are kept and used for every later       *)
(*   call - a cache keyed by the declaration instead of (declaration, type).      *)
(* TLC refutes HistoryIndependent for "cached" within 2 calls; the replay drives  *)
(* the enumerated histories through ONE schema object and requires the intended  *)
(* verdicts (and equality with a fresh schema object, errors included).          *)
EXTENDS Naturals, Sequences, FiniteSets, TLC, Json

CONSTANTS Variant, MaxCalls
Items == [xt : {"D1", "D2"}, code : {"absent", "X", "Y"}]
Docs == [i1 : Items, i2 : Items]
Ops == {"is_valid", "iter_errors", "decode_lax"}
Default(t) == IF t = "D1" THEN "X" ELSE "Y"
Field(it, t) == IF it.code = "absent" THEN Default(t) ELSE it.code
Intended(d) == Field(d.i1, d.i1.xt) = Field(d.i2, d.i2.xt)

VARIABLES cache,     \* "-" or the dynamic type whose readers are remembered
          hist
vars == <<cache, hist>>
Init == cache = "-" /\ hist = <<>>
ReaderType(it) == IF Variant = "cached" /\ cache # "-" THEN cache ELSE it.xt
Call(op, d) ==
  /\ Len(hist) < MaxCalls
  /\ LET t1 == ReaderType(d.i1)
         c1 == IF Variant = "cached" /\ cache = "-" THEN d.i1.xt ELSE cache
         t2 == IF Variant = "cached" THEN c1 ELSE d.i2.xt
     IN /\ hist' = Append(hist, [op |-> op, doc |-> d, invalid |-> Field(d.i1, t1) = Field(d.i2, t2),
                                 fresh |-> Intended(d)])
        /\ cache' = IF Variant = "cached" THEN c1 ELSE cache
Next == \E op \in Ops : \E d \in Docs : Call(op, d)
Spec == Init /\ [][Next]_vars

HistoryIndependent == \A i \in DOMAIN hist : hist[i].invalid = hist[i].fresh
(* the scenario is not vacuous: both verdicts occur, and with both dynamic types *)
ASSUME \E d \in Docs : Intended(d) /\ d.i1.xt # d.i2.xt
ASSUME \E d \in Docs : ~Intended(d) /\ d.i1.code = "absent" /\ d.i2.code = "absent"
Emit == IF Len(hist) = MaxCalls THEN PrintT(ToJson([hist |-> hist])) ELSE TRUE
=============================================================================
