SPECIFICATION Spec
INVARIANT TargetExists
INVARIANT PathsUnique
CONSTRAINT Emit
CHECK_DEADLOCK FALSE
