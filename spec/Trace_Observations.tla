-------------------------- MODULE Trace_Observations --------------------------
(* C04: all validation entry points and modes observe ONE hidden error list.    *)
(*                                                                            *)
(* The validator produces, for a schema and a document, a sequence E of errors  *)
(* (document order).  What each entry point may show of it:                     *)
(*    is_valid            res = (E = <<>>)                                      *)
(*    iter_errors         all of E: n = Len(E), first = id(Head(E))             *)
(*    validate            raises Head(E) iff E # <<>>                           *)
(*    decode strict       raises Head(E) iff E # <<>>, else data                *)
(*    decode lax          (data, E)                                             *)
(*    decode skip         data only, never raises                               *)
(*    cli                 exit status 0 iff E = <<>>, otherwise in 1..255       *)
(* A trace is the list of observations recorded for one (schema, document) by   *)
(* the driver at the public API; E itself is NOT logged: TLC must find one      *)
(* (n, first) - chosen among the logged values - that explains every event.     *)
(* Events: [entry, kind, n, first, exc, res, status]; error ids are interned    *)
(* per trace as 1.. (0 = none).                                                 *)
EXTENDS Naturals, Sequences, FiniteSets, TLC, Json, IOUtils

Traces == JsonDeserialize(IOEnv.TRACE_FILE)
ASSUME TLCSet(1, {})
ASSUME TLCSet(2, {})

VARIABLES tid, l, n, f
vars == <<tid, l, n, f>>

Ev(i) == Traces[tid].ev[i]
NCand(t) == {0} \cup {Traces[t].ev[i].n : i \in 1..Len(Traces[t].ev)}
FCand(t) == {0} \cup {Traces[t].ev[i].first : i \in 1..Len(Traces[t].ev)}
                \cup {Traces[t].ev[i].exc : i \in 1..Len(Traces[t].ev)}

ObsOK(e, nn, ff) ==
  CASE e.entry = "is_valid"      -> e.res = (nn = 0) /\ e.exc = 0
    [] e.entry = "iter_errors"   -> e.n = nn /\ e.first = ff /\ e.exc = 0
    [] e.entry = "validate"      -> e.exc = ff
    [] e.entry = "decode_strict" -> e.exc = ff
    [] e.entry = "decode_lax"    -> e.n = nn /\ e.first = ff /\ e.exc = 0
    [] e.entry = "decode_skip"   -> e.exc = 0
    [] e.entry = "cli"           -> (e.status = 0) = (nn = 0) /\ e.status \in 0..255

Init == /\ tid \in 1..Len(Traces)
        /\ l = 1
        /\ n \in NCand(tid) /\ f \in FCand(tid)
        /\ (n = 0) = (f = 0)              \* an empty list has no first error, a non-empty one has
Step == /\ l <= Len(Traces[tid].ev)
        /\ ObsOK(Ev(l), n, f)
        /\ l' = l + 1 /\ UNCHANGED <<tid, n, f>>
Spec == Init /\ [][Step]_vars

Done == l = Len(Traces[tid].ev) + 1
Mark == /\ (Done => TLCSet(1, TLCGet(1) \cup {tid}))
        /\ TLCSet(2, TLCGet(2) \cup {<<tid, l>>})
Post == /\ PrintT(<<"accepted", Cardinality(TLCGet(1)), "of", Len(Traces)>>)
        /\ PrintT(<<"rejected", (1..Len(Traces)) \ TLCGet(1)>>)
        /\ PrintT(<<"furthest", {<<t, CHOOSE m \in {x[2] : x \in {y \in TLCGet(2) : y[1] = t}} :
                                        \A k \in {x[2] : x \in {y \in TLCGet(2) : y[1] = t}} : k <= m>> :
                                   t \in (1..Len(Traces)) \ TLCGet(1)}>>)
=============================================================================
