SPECIFICATION Spec
INVARIANT BuiltOnce
INVARIANT NoPartialUse
INVARIANT MutualExclusion
INVARIANT FlagMeansFull
PROPERTY AllDone
CHECK_DEADLOCK FALSE
