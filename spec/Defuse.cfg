INIT DInit
NEXT DNext
INVARIANT RefusedBeforeExpansion
INVARIANT HarmlessParsed
INVARIANT NeverMeansNever
CONSTRAINT DEmit
CHECK_DEADLOCK FALSE
