------------------------------ MODULE ST_Tables ------------------------------
(* Constant-level tables of SimpleTypes.tla, printed as JSON for the replay. *)
EXTENDS SimpleTypes
FacetTable == {[f1 |-> f1, f2 |-> f2, v |-> v, ok |-> ChainOK(f1, f2, v)] :
                 f1 \in Level1, f2 \in Level2, v \in Candidates}
ListTable == {[w |-> lw, len |-> len, ok |-> ListOK(lw, len)] : lw \in ListWords, len \in {None, 2}}
UnionTable == {[u |-> u, x |-> x, val |-> FirstMatch(u, x)] : u \in Unions, x \in UTexts}
ASSUME PrintT(ToJson([table |-> "bounds", rows |-> BoundTable]))
ASSUME PrintT(ToJson([table |-> "facets", rows |-> FacetTable]))
ASSUME PrintT(ToJson([table |-> "lists", rows |-> ListTable]))
ASSUME PrintT(ToJson([table |-> "unions", rows |-> UnionTable]))
ASSUME PrintT(ToJson([table |-> "bools", rows |-> BoolTable]))
ASSUME PrintT(ToJson([table |-> "dates10", rows |-> DateTable("1.0")]))
ASSUME PrintT(ToJson([table |-> "dates11", rows |-> DateTable("1.1")]))
ASSUME PrintT(ToJson([table |-> "strfacets", rows |-> StrTable]))
ASSUME PrintT(ToJson([table |-> "digits", rows |-> DigTable]))
ASSUME PrintT(ToJson([table |-> "whitespace", rows |-> WsTable]))
ASSUME PrintT(ToJson([table |-> "patterns", rows |-> PatTable]))
ASSUME PrintT(ToJson([table |-> "timezones", rows |-> TzTable]))
ASSUME PrintT(ToJson([table |-> "times", rows |-> TimeTable]))
ASSUME PrintT(ToJson([table |-> "durations", rows |-> DurationTable]))
ASSUME GregLaws("1.0") /\ GregLaws("1.1")
ASSUME PrintT(ToJson([table |-> "greg10", rows |-> GregTable("1.0")]))
ASSUME PrintT(ToJson([table |-> "greg11", rows |-> GregTable("1.1")]))
ASSUME PrintT(ToJson([table |-> "hex", rows |-> HexTable]))
ASSUME PrintT(ToJson([table |-> "base64", rows |-> B64Table]))
=============================================================================
