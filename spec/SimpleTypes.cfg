SPECIFICATION Spec
INVARIANT CollapseIdempotent
INVARIANT HostileNeverValid
INVARIANT IntegerIsDecimal
INVARIANT CanonRoundTrip
CONSTRAINT EmitWord
CHECK_DEADLOCK FALSE
