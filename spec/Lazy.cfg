SPECIFICATION Spec
INVARIANT LimitsExact
INVARIANT HandedInOrder
INVARIANT CompleteWhenHanded
INVARIANT NsmapsWhileAttached
INVARIANT OpenAttached
CONSTRAINT Emit
CHECK_DEADLOCK FALSE
