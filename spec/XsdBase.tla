------------------------------ MODULE XsdBase ------------------------------
(* Shared vocabulary of the xmlschema specification.                          *)
(*                                                                          *)
(* Namespaces: "" is the ABSENT namespace, "T" the schema's target namespace, *)
(* "A" and "B" two further namespaces a schema may name, and "F" a FRESH one  *)
(* that no schema document ever names (it stands for "every other            *)
(* namespace": a constraint that only names finitely many namespaces treats   *)
(* all unnamed ones alike, so one representative is enough).                  *)
EXTENDS Naturals, Sequences, FiniteSets

NS     == {"", "T", "A", "B", "F"}
NsTok  == {"", "T", "A", "B"}         \* what a schema document can name
Loc    == {"x", "z"}                   \* local names; "z" is never named in notQName
Names  == NS \X Loc                    \* expanded names <<namespace, local>>

Inf == 99                              \* maxOccurs="unbounded"

Max(a, b) == IF a >= b THEN a ELSE b
Min(a, b) == IF a <= b THEN a ELSE b

RECURSIVE SeqToSet(_)
SeqToSet(s) == IF s = <<>> THEN {} ELSE {Head(s)} \cup SeqToSet(Tail(s))
=============================================================================
