------------------------------ MODULE Wildcards ------------------------------
(* Wildcard namespace constraints (xs:any / xs:anyAttribute) as SETS OF NAMES, *)
(* and the derivation-chain machine that combines them.                      *)
(*                                                                          *)
(* Two formulations are kept side by side and TLC checks that they agree:    *)
(*   - declarative: Denote(c) is a subset of Names; union / intersection /    *)
(*     subset / non-empty intersection are the set operations;               *)
(*   - clause level: UnionC / InterC / SubsetC compute on constraint         *)
(*     components the way the Recommendation words it (XSD 1.1 Part 1,       *)
(*     3.10.6.2-3.10.6.4; XSD 1.0 3.10.6 through the expressibility filter). *)
(* The implementation (xmlschema/validators/wildcards.py) is compared with   *)
(* the declarative reading, which is what property C16 states.               *)
EXTENDS XsdBase, TLC, Json

CONSTANTS Ver,        \* "1.0" | "1.1"
          MaxOps,     \* length bound of a derivation chain
          UseNQ       \* TRUE: notQName sets are part of the universe (1.1 only)

------------------------------------------------------------------------------
(* Syntax: what a schema document writes.                                     *)
(*   [f |-> "any"], [f |-> "other"], [f |-> "list", t |-> S], [f |-> "not", t |-> S] *)
(* plus nq: the set of expanded names listed in notQName.                      *)
NQPool == IF UseNQ /\ Ver = "1.1" THEN {<<"A", "x">>, <<"", "x">>} ELSE {}

SynNs == {[f |-> "any", t |-> {}], [f |-> "other", t |-> {}]}
         \cup {[f |-> "list", t |-> S] : S \in SUBSET NsTok}
         \cup (IF Ver = "1.1" THEN {[f |-> "not", t |-> S] : S \in (SUBSET NsTok) \ {{}}} ELSE {})

(* Components: [k |-> "any" | "enum" | "not", s |-> set of namespaces, nq |-> set of names] *)
CompNs(sy) == CASE sy.f = "any"   -> [k |-> "any",  s |-> {}]
                [] sy.f = "other" -> [k |-> "not",  s |-> {"", "T"}]
                [] sy.f = "list"  -> [k |-> "enum", s |-> sy.t]
                [] sy.f = "not"   -> [k |-> "not",  s |-> sy.t]

NsAllows(c, ns) == CASE c.k = "any"  -> TRUE
                     [] c.k = "enum" -> ns \in c.s
                     [] c.k = "not"  -> ns \notin c.s

(* the Recommendation requires notQName members to lie in allowed namespaces  *)
Syntax == {[ns |-> sy, nq |-> q] : sy \in SynNs, q \in SUBSET NQPool}
WellFormed(x) == \A n \in x.nq : NsAllows(CompNs(x.ns), n[1])
Syn == {x \in Syntax : WellFormed(x)}

Comp(x) == [k |-> CompNs(x.ns).k, s |-> CompNs(x.ns).s, nq |-> x.nq]

------------------------------------------------------------------------------
(* Declarative reading                                                        *)
NsDen(c)  == {ns \in NS : NsAllows(c, ns)}
Denote(c) == {n \in Names : NsAllows(c, n[1]) /\ n \notin c.nq}

------------------------------------------------------------------------------
(* Clause-level operations on components                                      *)
Norm(c) == IF c.k = "not" /\ c.s = {} THEN [k |-> "any", s |-> {}, nq |-> c.nq] ELSE c

UnionNs(a, b) ==
  CASE a.k = "any" \/ b.k = "any"        -> [k |-> "any", s |-> {}]
    [] a.k = "enum" /\ b.k = "enum"      -> [k |-> "enum", s |-> a.s \cup b.s]
    [] a.k = "not"  /\ b.k = "not"       -> [k |-> "not", s |-> a.s \cap b.s]
    [] a.k = "not"  /\ b.k = "enum"      -> [k |-> "not", s |-> a.s \ b.s]
    [] a.k = "enum" /\ b.k = "not"       -> [k |-> "not", s |-> b.s \ a.s]

UnionC(a, b) ==
  LET n == UnionNs(a, b)
      q == {x \in a.nq : x \in b.nq \/ ~NsAllows(b, x[1])}
           \cup {x \in b.nq : x \in a.nq \/ ~NsAllows(a, x[1])}
  IN Norm([k |-> n.k, s |-> n.s, nq |-> q])

InterNs(a, b) ==
  CASE a.k = "any"                       -> [k |-> b.k, s |-> b.s]
    [] b.k = "any"                       -> [k |-> a.k, s |-> a.s]
    [] a.k = "enum" /\ b.k = "enum"      -> [k |-> "enum", s |-> a.s \cap b.s]
    [] a.k = "not"  /\ b.k = "not"       -> [k |-> "not", s |-> a.s \cup b.s]
    [] a.k = "not"  /\ b.k = "enum"      -> [k |-> "enum", s |-> b.s \ a.s]
    [] a.k = "enum" /\ b.k = "not"       -> [k |-> "enum", s |-> a.s \ b.s]

InterC(a, b) ==
  LET n == InterNs(a, b)
  IN [k |-> n.k, s |-> n.s, nq |-> {x \in a.nq \cup b.nq : NsAllows(n, x[1])}]

(* Wildcard Subset (3.10.6.2): sub is a subset of super *)
SubsetC(sub, super) ==
  /\ CASE super.k = "any"                      -> TRUE
       [] sub.k = "any"                        -> FALSE
       [] sub.k = "enum" /\ super.k = "enum"   -> sub.s \subseteq super.s
       [] sub.k = "enum" /\ super.k = "not"    -> sub.s \cap super.s = {}
       [] sub.k = "not"  /\ super.k = "not"    -> super.s \subseteq sub.s
       [] sub.k = "not"  /\ super.k = "enum"   -> FALSE
  /\ \A x \in super.nq : ~NsAllows(sub, x[1]) \/ x \in sub.nq

(* overlap is decided on namespaces: a namespace holds infinitely many local  *)
(* names, finitely many of which notQName can remove                          *)
OverlapC(a, b) ==
  CASE a.k = "any"                      -> b.k # "enum" \/ b.s # {}
    [] b.k = "any"                      -> a.k # "enum" \/ a.s # {}
    [] a.k = "not"  /\ b.k = "not"      -> TRUE
    [] a.k = "enum" /\ b.k = "enum"     -> a.s \cap b.s # {}
    [] a.k = "enum" /\ b.k = "not"      -> a.s \ b.s # {}
    [] a.k = "not"  /\ b.k = "enum"     -> b.s \ a.s # {}

(* XSD 1.0 components: any, enumerations, not(T) [written ##other: excludes T *)
(* and absent] and not(absent) [only ever computed]                           *)
Expressible(c) == Ver = "1.1" \/ c.k # "not" \/ c.s \in {{"", "T"}, {""}}

------------------------------------------------------------------------------
(* The derivation-chain machine: a wildcard is extended (type extension:      *)
(* union) or composed (attribute groups: intersection) step by step.          *)
VARIABLES cur,      \* component computed so far
          den,      \* ghost: the set of names it must admit
          hist,     \* the chain: <<start syntax, [op, arg syntax], ...>>
          inexpr    \* 1.0 only: the last union was not expressible (terminal)

vars == <<cur, den, hist, inexpr>>

Init == \E x \in Syn : /\ cur = Comp(x)
                       /\ den = Denote(Comp(x))
                       /\ hist = <<x>>
                       /\ inexpr = FALSE

Extend(x) == /\ ~inexpr /\ Len(hist) <= MaxOps
             /\ LET u == UnionC(cur, Comp(x)) IN
                  /\ cur' = IF Expressible(u) THEN u ELSE cur
                  /\ inexpr' = ~Expressible(u)
                  /\ den' = den \cup Denote(Comp(x))
             /\ hist' = Append(hist, [op |-> "union", arg |-> x])

Compose(x) == /\ ~inexpr /\ Len(hist) <= MaxOps
              /\ LET i == InterC(cur, Comp(x)) IN
                   /\ cur' = IF Expressible(i) THEN i ELSE cur
                   /\ inexpr' = ~Expressible(i)
                   /\ den' = den \cap Denote(Comp(x))
              /\ hist' = Append(hist, [op |-> "inter", arg |-> x])

Next == \E x \in Syn : Extend(x) \/ Compose(x)

Spec == Init /\ [][Next]_vars

------------------------------------------------------------------------------
(* Properties (obligation A)                                                  *)
ClauseAgreesWithSets == inexpr \/ Denote(cur) = den

(* laws over all pairs of written constraints *)
PairLaws ==
  \A x \in Syn : \A y \in Syn :
    LET a == Comp(x)  b == Comp(y) IN
      /\ Denote(UnionC(a, b)) = Denote(a) \cup Denote(b)
      /\ Denote(InterC(a, b)) = Denote(a) \cap Denote(b)
      /\ SubsetC(a, b) = (Denote(a) \subseteq Denote(b))
      /\ OverlapC(a, b) = (NsDen(a) \cap NsDen(b) # {})
      /\ UnionC(a, b).k = UnionC(b, a).k /\ UnionC(a, b).s = UnionC(b, a).s
      /\ Denote(InterC(a, b)) = Denote(InterC(b, a))
      /\ Denote(UnionC(a, a)) = Denote(a)
      /\ SubsetC(InterC(a, b), a) /\ SubsetC(a, UnionC(a, b))

(* the 1.0 pairs whose union is not expressible are exactly clause 5.3 of     *)
(* Attribute Wildcard Union: not(T) with a set holding absent but not T       *)
Inexpressible10 ==
  Ver = "1.0" =>
    \A x \in Syn : \A y \in Syn :
      LET a == Comp(x)  b == Comp(y) IN
        (~Expressible(UnionC(a, b))) =
           \/ (a.k = "not" /\ b.k = "enum" /\ "" \in b.s /\ "T" \notin b.s)
           \/ (b.k = "not" /\ a.k = "enum" /\ "" \in a.s /\ "T" \notin a.s)

ASSUME PairLaws
ASSUME Inexpressible10

------------------------------------------------------------------------------
(* Emission of cases for the replay on the implementation (obligation B)      *)
PairTable(x, y) ==
  LET a == Comp(x)  b == Comp(y) IN
    [sub |-> Denote(a) \subseteq Denote(b), ovl |-> NsDen(a) \cap NsDen(b) # {}]

Emit == PrintT(ToJson([ver |-> Ver, hist |-> hist, den |-> den, inexpr |-> inexpr,
                       \* the operands of a pair keep their own denotations (the operations are functions)
                       ops |-> IF Len(hist) = 2 THEN <<Denote(Comp(hist[1])), Denote(Comp(hist[2].arg))>> ELSE <<>>,
                       rel |-> IF Len(hist) = 2
                                 THEN PairTable(hist[1], hist[2].arg)
                                 ELSE [sub |-> FALSE, ovl |-> FALSE]]))
=============================================================================
