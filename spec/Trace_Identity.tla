---------------------------- MODULE Trace_Identity ----------------------------
(* Batch validation of the ident.* events recorded in IdentityCounter (reset /   *)
(* increase) and KeyrefCounter.iter_errors while REAL documents are validated,      *)
(* against the streaming machine of Identity.tla.  The driver knows the document     *)
(* (it rendered it from the abstract rows), so the trace specification walks the     *)
(* document and takes the machine's own actions EnterScope / Select / LeaveScope /   *)
(* EndDoc; at every step that the implementation logs, the next event must be the    *)
(* one the machine's state dictates:                                                 *)
(*   reset(K), reset(R)   on entering the declaring element (s: inner, r: outer)     *)
(*   add(K, t, count)     a qualified key row: count = occurrences of t so far       *)
(*   add(R, t)            a qualified keyref row                                     *)
(*   resolve(R, n)        on leaving the declaring element: n dangling tuples        *)
(* Unqualified rows and ID / IDREF rows are not logged: the machine steps silently.  *)
(* A trace is [doc, ev |-> <<[e, id, t, n]...>>].                                   *)
EXTENDS Identity, IOUtils

Traces == JsonDeserialize(IOEnv.TRACE_FILE)
ASSUME TLCSet(1, {})
ASSUME TLCSet(2, {})
VARIABLES tid, l, sc, rw, pc, why
tvars == <<vars, tid, l, sc, rw, pc, why>>
D == Traces[tid].doc
Ev(i) == Traces[tid].ev[i]
HasEv(i) == i <= Len(Traces[tid].ev)
AsTuple(t) == [i \in 1..Len(t) |-> t[i]]

ResetsOK(i) == /\ HasEv(i) /\ HasEv(i + 1)
               /\ Ev(i).e = "reset" /\ Ev(i + 1).e = "reset"
               /\ {Ev(i).id, Ev(i + 1).id} = {"K", "R"}
Dangling == Cardinality({t \in refs : keys[t] = 0})
ResolveOK(i) == HasEv(i) /\ Ev(i).e = "resolve" /\ Ev(i).id = "R" /\ Ev(i).n = Dangling

TInit == /\ Init /\ tid \in 1..Len(Traces) /\ l = 1 /\ sc = 0 /\ rw = 0 /\ pc = "start" /\ why = "ok"

TStart == /\ pc = "start" /\ why = "ok"
          /\ IF Level = "outer"
               THEN /\ why' = IF ResetsOK(l) THEN "ok" ELSE "the counters of the root's constraints are not reset on entering the root"
                    /\ l' = l + 2
               ELSE UNCHANGED <<why, l>>
          /\ pc' = "root" /\ UNCHANGED <<vars, tid, sc, rw>>

TEnter == /\ pc = "root" /\ why = "ok" /\ sc < Len(D)
          /\ EnterScope
          /\ IF Level = "inner"
               THEN /\ why' = IF ResetsOK(l) THEN "ok" ELSE "the counters are not reset on entering the declaring element"
                    /\ l' = l + 2
               ELSE UNCHANGED <<why, l>>
          /\ sc' = sc + 1 /\ rw' = 0 /\ pc' = "scope" /\ UNCHANGED tid

TRow == /\ pc = "scope" /\ why = "ok" /\ rw < Len(D[sc])
        /\ LET r == [k |-> D[sc][rw + 1].k, t |-> AsTuple(D[sc][rw + 1].t)] IN
             /\ Select(r)
             /\ IF r.k \in {"k", "f"} /\ Qualified(r.t)
                  THEN /\ l' = l + 1
                       /\ why' = IF ~HasEv(l) \/ Ev(l).e # "add" THEN "a selected row with all its fields is not counted"
                                 ELSE IF Ev(l).id # (IF r.k = "k" THEN "K" ELSE "R") THEN "row counted for the wrong constraint"
                                 ELSE IF AsTuple(Ev(l).t) # r.t THEN "the counted field tuple is not the row's tuple in value space"
                                 ELSE IF r.k = "k" /\ Ev(l).n # keys[r.t] + 1 THEN "occurrence count of the key tuple differs"
                                 ELSE "ok"
                  ELSE UNCHANGED <<l, why>>
        /\ rw' = rw + 1 /\ UNCHANGED <<tid, sc, pc>>

TLeave == /\ pc = "scope" /\ why = "ok" /\ rw = Len(D[sc])
          /\ IF Level = "inner"
               THEN /\ why' = IF ResolveOK(l) THEN "ok" ELSE "key references are not resolved (or resolved wrongly) on leaving the declaring element"
                    /\ l' = l + 1
               ELSE UNCHANGED <<why, l>>
          /\ LeaveScope
          /\ pc' = "root" /\ UNCHANGED <<tid, sc, rw>>

TEnd == /\ pc = "root" /\ why = "ok" /\ sc = Len(D)
        /\ IF Level = "outer"
             THEN /\ why' = IF ResolveOK(l) THEN "ok" ELSE "key references are not resolved (or resolved wrongly) at the end of the root"
                  /\ l' = l + 1
             ELSE UNCHANGED <<why, l>>
        /\ EndDoc
        /\ pc' = "end" /\ UNCHANGED <<tid, sc, rw>>

TFinish == /\ pc = "end" /\ why = "ok"
           /\ why' = IF l = Len(Traces[tid].ev) + 1 THEN "done" ELSE "events the machine does not explain"
           /\ pc' = "stop" /\ UNCHANGED <<vars, tid, l, sc, rw>>

TNext == TStart \/ TEnter \/ TRow \/ TLeave \/ TEnd \/ TFinish
TSpec == TInit /\ [][TNext]_tvars

Mark == /\ (why = "done" => TLCSet(1, TLCGet(1) \cup {tid}))
        /\ (why \notin {"ok", "done"} => TLCSet(2, TLCGet(2) \cup {<<tid, l - 1, why>>}))
Post == /\ PrintT(<<"accepted", Cardinality(TLCGet(1)), "of", Len(Traces)>>)
        /\ PrintT(<<"rejected", (1..Len(Traces)) \ TLCGet(1)>>)
        /\ PrintT(<<"reasons", TLCGet(2)>>)
=============================================================================
