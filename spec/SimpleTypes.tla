------------------------------ MODULE SimpleTypes ------------------------------
(* XSD simple types as the library must see them (XSD Part 2):                  *)
(*   - whitespace normalisation (collapse) as a function on words of            *)
(*     CHARACTER CLASSES;                                                       *)
(*   - lexical spaces of decimal / integer / boolean as predicates on           *)
(*     normalised class words; value denotation as <<sign, int digits, fraction *)
(*     digits>> with leading / trailing zeros removed (so 1.0 = 1.00, -0 = 0);  *)
(*   - the bounded integer built-ins by digit-sequence comparison (TLC integers *)
(*     are 32 bit);                                                             *)
(*   - facets (min/max inclusive/exclusive, totalDigits, enumeration) and       *)
(*     two-level restriction chains; lists (item-wise, length) and unions       *)
(*     (first member whose validation succeeds);                                *)
(*   - xs:date from a catalogue of field spellings (year width and sign, month, *)
(*     day-in-month with leap years, time-zone range, year 0000 per version).   *)
(* Character classes: "0" the digit zero, "7" a non-zero ASCII digit, "+", "-",  *)
(* ".", "s" space, "t" tab, "n" newline, and the HOSTILE classes that a lenient  *)
(* number parser tends to accept: "_" underscore, "F" a full-width digit,        *)
(* "A" an Arabic-Indic digit, "e" exponent letter, "x" another letter,           *)
(* "N" a no-break space (not XML whitespace).                                    *)
EXTENDS XsdBase, Integers, TLC, Json

Digits  == {"0", "7"}
WS      == {"s", "t", "n"}
Hostile == {"_", "F", "A", "e", "x", "N"}
Classes == Digits \cup {"+", "-", "."} \cup WS \cup Hostile

------------------------------------------------------------------------------
(* whitespace: collapse *)
RECURSIVE StripL(_), CollapseInner(_)
StripL(w) == IF w # <<>> /\ Head(w) \in WS THEN StripL(Tail(w)) ELSE w
Rev(w) == [i \in 1..Len(w) |-> w[Len(w) + 1 - i]]
Strip(w) == Rev(StripL(Rev(StripL(w))))
CollapseInner(w) == IF w = <<>> THEN <<>>
                    ELSE IF Head(w) \in WS
                      THEN <<"s">> \o CollapseInner(StripL(w))
                      ELSE <<Head(w)>> \o CollapseInner(Tail(w))
Collapse(w) == CollapseInner(Strip(w))

(* lexical spaces on a collapsed word *)
Unsigned(w) == IF w # <<>> /\ Head(w) \in {"+", "-"} THEN Tail(w) ELSE w
SignOf(w)   == IF w # <<>> /\ Head(w) = "-" THEN "-" ELSE "+"
AllDigits(w) == \A i \in DOMAIN w : w[i] \in Digits
IntegerLex(w) == Unsigned(w) # <<>> /\ AllDigits(Unsigned(w))
Dots(w) == {i \in DOMAIN w : w[i] = "."}
DecimalLex(w) ==
  LET u == Unsigned(w) IN
    /\ \A i \in DOMAIN u : u[i] \in Digits \cup {"."}
    /\ Cardinality(Dots(u)) <= 1
    /\ \E i \in DOMAIN u : u[i] \in Digits

(* value denotation *)
RECURSIVE DropLeadZ(_)
DropLeadZ(d) == IF d # <<>> /\ Head(d) = "0" THEN DropLeadZ(Tail(d)) ELSE d
DropTrailZ(d) == Rev(DropLeadZ(Rev(d)))
IntPart(u)  == IF Dots(u) = {} THEN u ELSE SubSeq(u, 1, (CHOOSE i \in Dots(u) : TRUE) - 1)
FracPart(u) == IF Dots(u) = {} THEN <<>> ELSE SubSeq(u, (CHOOSE i \in Dots(u) : TRUE) + 1, Len(u))
Denote(w) == LET u == Unsigned(w)
                 ip == DropLeadZ(IntPart(u))
                 fp == DropTrailZ(FracPart(u))
             IN [sign |-> IF ip = <<>> /\ fp = <<>> THEN "+" ELSE SignOf(w), int |-> ip, frac |-> fp]

LexOK(kind, w) == IF kind = "decimal" THEN DecimalLex(Collapse(w)) ELSE IntegerLex(Collapse(w))

------------------------------------------------------------------------------
(* digit-sequence arithmetic for the bounded built-ins: a magnitude is a       *)
(* sequence of decimal digits 0..9 without leading zeros; a number <<sg, mag>> *)
RECURSIVE CmpSame(_, _)
CmpSame(a, b) == IF a = <<>> THEN 0 ELSE IF Head(a) < Head(b) THEN -1
                 ELSE IF Head(a) > Head(b) THEN 1 ELSE CmpSame(Tail(a), Tail(b))
CmpMag(a, b) == IF Len(a) < Len(b) THEN -1 ELSE IF Len(a) > Len(b) THEN 1 ELSE CmpSame(a, b)
IsZero(x) == x[2] = <<>>
Cmp(x, y) ==   \* -1, 0, 1
  CASE IsZero(x) /\ IsZero(y) -> 0
    [] x[1] = "+" /\ (y[1] = "-" /\ ~IsZero(y)) -> 1
    [] (x[1] = "-" /\ ~IsZero(x)) /\ y[1] = "+" -> -1
    [] x[1] = "+" /\ y[1] = "+" -> CmpMag(x[2], y[2])
    [] OTHER -> CmpMag(y[2], x[2])
RECURSIVE IncRev(_)
IncRev(r) == IF r = <<>> THEN <<1>> ELSE IF Head(r) = 9 THEN <<0>> \o IncRev(Tail(r))
             ELSE <<Head(r) + 1>> \o Tail(r)
IncMag(m) == Rev(IncRev(Rev(m)))
RECURSIVE DecRev(_)
DecRev(r) == IF Head(r) = 0 THEN <<9>> \o DecRev(Tail(r)) ELSE <<Head(r) - 1>> \o Tail(r)
DecMag(m) == LET d == Rev(DecRev(Rev(m))) IN IF d # <<>> /\ Head(d) = 0 THEN Tail(d) ELSE d
Succ(x) == IF x[1] = "+" \/ IsZero(x) THEN <<"+", IncMag(x[2])>>
           ELSE LET m == DecMag(x[2]) IN IF m = <<>> THEN <<"+", <<>>>> ELSE <<"-", m>>
Pred(x) == IF x[1] = "-" \/ IsZero(x) THEN <<"-", IncMag(x[2])>>
           ELSE LET m == DecMag(x[2]) IN <<"+", m>>

NoBound == <<"?", <<>>>>
Bounded == [
  byte |-> <<<<"-", <<1,2,8>>>>, <<"+", <<1,2,7>>>>>>,
  short |-> <<<<"-", <<3,2,7,6,8>>>>, <<"+", <<3,2,7,6,7>>>>>>,
  int |-> <<<<"-", <<2,1,4,7,4,8,3,6,4,8>>>>, <<"+", <<2,1,4,7,4,8,3,6,4,7>>>>>>,
  long |-> <<<<"-", <<9,2,2,3,3,7,2,0,3,6,8,5,4,7,7,5,8,0,8>>>>, <<"+", <<9,2,2,3,3,7,2,0,3,6,8,5,4,7,7,5,8,0,7>>>>>>,
  unsignedByte |-> <<<<"+", <<>>>>, <<"+", <<2,5,5>>>>>>,
  unsignedShort |-> <<<<"+", <<>>>>, <<"+", <<6,5,5,3,5>>>>>>,
  unsignedInt |-> <<<<"+", <<>>>>, <<"+", <<4,2,9,4,9,6,7,2,9,5>>>>>>,
  unsignedLong |-> <<<<"+", <<>>>>, <<"+", <<1,8,4,4,6,7,4,4,0,7,3,7,0,9,5,5,1,6,1,5>>>>>>,
  positiveInteger |-> <<<<"+", <<1>>>>, NoBound>>,
  nonNegativeInteger |-> <<<<"+", <<>>>>, NoBound>>,
  negativeInteger |-> <<NoBound, <<"-", <<1>>>>>>,
  nonPositiveInteger |-> <<NoBound, <<"+", <<>>>>>>,
  integer |-> <<NoBound, NoBound>> ]
BoundedTypes == DOMAIN Bounded
InRange(t, x) == /\ (Bounded[t][1] = NoBound \/ Cmp(x, Bounded[t][1]) >= 0)
                 /\ (Bounded[t][2] = NoBound \/ Cmp(x, Bounded[t][2]) <= 0)
(* boundary catalogue of a type: each bound, its neighbours, zero, one, minus one *)
Boundary(t) ==
  LET bs == {b \in {Bounded[t][1], Bounded[t][2]} : b # NoBound}
  IN UNION {{Pred(b), b, Succ(b)} : b \in bs}
     \cup {<<"+", <<>>>>, <<"+", <<1>>>>, <<"-", <<1>>>>,
           <<"+", <<9,9,9,9,9,9,9,9,9,9,9,9,9,9,9,9,9,9,9,9,9,9>>>>}
BoundTable == {[t |-> t, sign |-> x[1], mag |-> x[2], ok |-> InRange(t, x)] :
                  t \in BoundedTypes, x \in UNION {Boundary(u) : u \in BoundedTypes}}

ASSUME \A t \in BoundedTypes : \A b \in {Bounded[t][1], Bounded[t][2]} :
          b = NoBound \/ (InRange(t, b) /\ (b = Bounded[t][1] => ~InRange(t, Pred(b)))
                                        /\ (b = Bounded[t][2] => ~InRange(t, Succ(b))))
ASSUME \A x \in UNION {Boundary(u) : u \in BoundedTypes} : Cmp(Pred(Succ(x)), x) = 0 /\ Cmp(x, Succ(x)) = -1

------------------------------------------------------------------------------
(* facets on small integers (restriction chains of xs:integer):               *)
(* a facet set is [mini, maxi, mine, maxe, td, enum]; None = 99               *)
None == 99
FacetOK(f, v) ==
  /\ (f.mini = None \/ v >= f.mini) /\ (f.maxi = None \/ v <= f.maxi)
  /\ (f.mine = None \/ v > f.mine)  /\ (f.maxe = None \/ v < f.maxe)
  /\ (f.td = None \/ (IF v < 0 THEN -v ELSE v) < (IF f.td = 1 THEN 10 ELSE 100))
  /\ (f.enum = {} \/ v \in f.enum)
Level1 == [mini : {None, 0, 5}, maxi : {None, 9, 10}, mine : {None}, maxe : {None},
           td : {None, 1}, enum : {{}}]
Level2 == [mini : {None}, maxi : {None, 7}, mine : {None, 5}, maxe : {None, 9},
           td : {None}, enum : {{}, {5, 7, 10}}]
Candidates == -2..12
ChainOK(f1, f2, v) == FacetOK(f1, v) /\ FacetOK(f2, v)
(* restriction only narrows (feeds C14) *)
ASSUME \A f1 \in Level1 : \A f2 \in Level2 : \A v \in Candidates : ChainOK(f1, f2, v) => FacetOK(f1, v)

(* lists of integers: items separated by whitespace; length facet             *)
ListItems == {"i1", "i2", "bad"}            \* 1, 2, not an integer
ListWords == UNION {[1..n -> ListItems] : n \in 0..3}
ListOK(w, len) == (\A i \in DOMAIN w : w[i] # "bad") /\ (len = None \/ Len(w) = len)

(* unions: first member whose validation succeeds; members:                   *)
(*   "pos" xs:positiveInteger, "bool" xs:boolean, "int" xs:integer, "ab" enumeration {a,b} *)
UTexts == {"1", "0", "-1", "true", "a", "c", "01", " 1 "}
MemberOK(m, x) == CASE m = "pos"  -> x \in {"1", "01", " 1 "}
                    [] m = "int"  -> x \in {"1", "0", "-1", "01", " 1 "}
                    [] m = "bool" -> x \in {"1", "0", "true", " 1 "}
                    [] m = "ab"   -> x = "a"
MemberVal(m, x) == CASE m \in {"pos", "int"} -> (IF x = "0" THEN "int:0" ELSE IF x = "-1" THEN "int:-1" ELSE "int:1")
                     [] m = "bool" -> (IF x \in {"1", "true", " 1 "} THEN "bool:true" ELSE "bool:false")
                     [] m = "ab"   -> "str:a"
Unions == {<<"pos", "bool">>, <<"bool", "pos">>, <<"bool", "int">>, <<"int", "bool">>,
           <<"ab", "int">>, <<"pos", "ab">>}
RECURSIVE FirstMatch(_, _)
FirstMatch(u, x) == IF u = <<>> THEN "invalid"
                    ELSE IF MemberOK(Head(u), x) THEN MemberVal(Head(u), x) ELSE FirstMatch(Tail(u), x)

(* xs:boolean on words of tokens *)
BoolTokens == {"s", "n", "true", "false", "1", "0", "True", "yes"}
BoolWords == UNION {[1..n -> BoolTokens] : n \in 0..3}
BoolOK(bw) == Strip(bw) \in {<<"true">>, <<"false">>, <<"1">>, <<"0">>}
BoolVal(bw) == Strip(bw) \in {<<"true">>, <<"1">>}
BoolTable == {[w |-> bw, ok |-> BoolOK(bw), val |-> BoolVal(bw)] : bw \in BoolWords}

------------------------------------------------------------------------------
(* xs:date from a catalogue of field spellings *)
Years  == {"0000", "0001", "2023", "2024", "1900", "2000", "02024", "12024", "-0001", "-0000", "24",
           "99999999999"}
Months == {"00", "01", "02", "12", "13", "1"}
Days   == {"00", "01", "28", "29", "30", "31", "32", "1"}
Zones  == {"", "Z", "+14:00", "+14:01", "-14:00", "+13:59", "+5:00", "+05", "z"}
YearNum(y) == CASE y = "0000" -> 0 [] y = "-0000" -> 0 [] y = "0001" -> 1 [] y = "-0001" -> -1
                [] y = "2023" -> 2023 [] y = "2024" -> 2024 [] y = "1900" -> 1900
                [] y = "2000" -> 2000 [] y = "12024" -> 12024 [] OTHER -> 7
YearLexOK(y) == y \notin {"02024", "24"}        \* >= 4 digits, no leading zero beyond 4
(* XSD 1.1: yearFrag ::= '-'? (([1-9] digit digit digit+) | ('0' digit digit digit)): 0000 and -0000 *)
YearOK(ver, y) == YearLexOK(y) /\ (YearNum(y) # 0 \/ ver = "1.1")
(* XSD 1.1 / ISO 8601 proleptic: year 0000 is 1 BCE (a leap year), -0001 is 2 BCE *)
Leap(ver, y) == LET n == IF ver = "1.1" \/ YearNum(y) > 0 THEN YearNum(y) ELSE YearNum(y) + 1
                IN (n % 4 = 0 /\ n % 100 # 0) \/ n % 400 = 0
MonthNum(m) == CASE m = "01" -> 1 [] m = "02" -> 2 [] m = "12" -> 12 [] OTHER -> 0
DayNum(d) == CASE d = "01" -> 1 [] d = "28" -> 28 [] d = "29" -> 29 [] d = "30" -> 30
               [] d = "31" -> 31 [] OTHER -> 0
DaysIn(ver, y, m) == IF MonthNum(m) = 2 THEN (IF Leap(ver, y) THEN 29 ELSE 28) ELSE 31
ZoneOK(z) == z \in {"", "Z", "+14:00", "-14:00", "+13:59"}
DateOK(ver, y, m, d, z) ==
  /\ YearOK(ver, y) /\ MonthNum(m) # 0 /\ DayNum(d) # 0
  /\ DayNum(d) <= DaysIn(ver, y, m) /\ ZoneOK(z)
DateTable(ver) == {[y |-> y, m |-> m, d |-> d, z |-> z, ok |-> DateOK(ver, y, m, d, z)] :
                     y \in Years, m \in Months, d \in Days, z \in Zones}

------------------------------------------------------------------------------
(* xs:time from a catalogue of field spellings: hh:mm:ss(.s+)? zone?; 24:00:00 is  *)
(* the end of the day and the only form with hour 24.                             *)
Hours   == {"00", "12", "23", "24", "25", "7"}
Minutes == {"00", "59", "60", "5"}
Seconds == {"00", "59", "00.5", "00.", "5", "61"}
TimeOK(h, mi, sec, z) ==
  /\ ZoneOK(z)
  /\ \/ (h \in {"00", "12", "23"} /\ mi \in {"00", "59"} /\ sec \in {"00", "59", "00.5"})
     \/ (h = "24" /\ mi = "00" /\ sec = "00")
TimeTable == {[h |-> h, mi |-> mi, s |-> sec, z |-> z, ok |-> TimeOK(h, mi, sec, z)] :
                h \in Hours, mi \in Minutes, sec \in Seconds, z \in {"", "Z", "+14:00", "+14:01", "+5:00"}}

(* The other calendar types over the same field catalogues: xs:gYear (y z), xs:gYearMonth (y-m z),  *)
(* xs:gMonth (--m z), xs:gDay (---d z), xs:gMonthDay (--m-d z; the day must exist in the month of    *)
(* SOME year, so --02-29 is a value and --02-30 is not) and xs:dateTime (date 'T' h:00:00 z, where  *)
(* 24:00:00 is the end of the day).                                                                  *)
GYears == {"0000", "0001", "2023", "2024", "02024", "12024", "-0001", "24"}
GZones == {"", "Z", "+14:01", "-14:00"}
GregOK(ver, t, y, m, d, h, z) ==
  /\ ZoneOK(z)
  /\ CASE t = "gYear" -> YearOK(ver, y)
       [] t = "gYearMonth" -> YearOK(ver, y) /\ MonthNum(m) # 0
       [] t = "gMonth" -> MonthNum(m) # 0
       [] t = "gDay" -> DayNum(d) # 0
       [] t = "gMonthDay" -> MonthNum(m) # 0 /\ DayNum(d) # 0
                             /\ DayNum(d) <= (IF MonthNum(m) = 2 THEN 29 ELSE 31)
       [] OTHER -> DateOK(ver, y, m, d, z) /\ h \in {"00", "12", "23", "24"}
GregRow(ver, t, y, m, d, h, z) ==
  [t |-> t, y |-> y, m |-> m, d |-> d, h |-> h, z |-> z, ok |-> GregOK(ver, t, y, m, d, h, z)]
GregTable(ver) ==
  {GregRow(ver, "gYear", y, "", "", "", z) : y \in GYears, z \in GZones}
  \cup {GregRow(ver, "gYearMonth", y, m, "", "", z) : y \in GYears, m \in Months, z \in GZones}
  \cup {GregRow(ver, "gMonth", "", m, "", "", z) : m \in Months, z \in GZones}
  \cup {GregRow(ver, "gDay", "", "", d, "", z) : d \in Days, z \in GZones}
  \cup {GregRow(ver, "gMonthDay", "", m, d, "", z) : m \in Months, d \in Days, z \in GZones}
  \cup {GregRow(ver, "dateTime", y, m, d, h, z) :
          y \in {"0000", "2023", "2024", "24"}, m \in Months, d \in Days, h \in Hours, z \in {"", "Z", "+14:01"}}
(* laws: a dateTime row is valid only if the date row is; the month-day needs no year *)
GregLaws(ver) ==
  /\ \A r \in GregTable(ver) : r.t = "dateTime" /\ r.ok => DateOK(ver, r.y, r.m, r.d, r.z)
  /\ \A r \in GregTable(ver) : r.t = "gMonthDay" /\ r.ok =>
        \E y \in Years : DateOK("1.1", y, r.m, r.d, r.z)
  /\ \A r \in GregTable(ver) : r.t = "gYearMonth" /\ r.ok => GregOK(ver, "gYear", r.y, "", "", "", r.z)

(* xs:duration as a little grammar: sign? 'P' (nY)? (nM)? (nD)? ('T' (nH)? (nM)? (n(.n)?S)?)?  *)
(* with at least one component, 'T' only before a time component, units in order     *)
(* and at most once.  A component is <<number class, unit>>; number classes "1",      *)
(* "1.5" (fraction: seconds only), "1." (no digit after the point: never).            *)
DateParts == {<<>>, <<<<"1", "Y">>>>, <<<<"1", "M">>>>, <<<<"1", "D">>>>,
              <<<<"1", "Y">>, <<"1", "M">>, <<"1", "D">>>>, <<<<"1", "M">>, <<"1", "Y">>>>,
              <<<<"1", "Y">>, <<"1", "Y">>>>, <<<<"1.5", "Y">>>>, <<<<"1", "H">>>>}
TimeParts == {<<>>, <<<<"1", "H">>>>, <<<<"1", "S">>>>, <<<<"1", "H">>, <<"1", "M">>, <<"1", "S">>>>,
              <<<<"1", "S">>, <<"1", "H">>>>, <<<<"1.5", "S">>>>, <<<<"1.5", "H">>>>, <<<<"1.", "S">>>>,
              <<<<"1", "D">>>>}
Rank(u, time) == IF time THEN CASE u = "H" -> 1 [] u = "M" -> 2 [] u = "S" -> 3 [] OTHER -> 0
                 ELSE CASE u = "Y" -> 1 [] u = "M" -> 2 [] u = "D" -> 3 [] OTHER -> 0
PartsOK(ps, time) ==
  /\ \A i \in DOMAIN ps : Rank(ps[i][2], time) # 0
  /\ \A i \in DOMAIN ps : \A j \in DOMAIN ps : i < j => Rank(ps[i][2], time) < Rank(ps[j][2], time)
  /\ \A i \in DOMAIN ps : ps[i][1] = "1" \/ (ps[i][1] = "1.5" /\ time /\ ps[i][2] = "S")
(* validity is a function of the TEXT: the components in the order written, the part after  *)
(* the (single) 'T' read as time components, everything else as date components            *)
DurToks(date, t, time) == date \o (IF t THEN <<<<"T", "T">>>> ELSE <<>>) \o time
DurationOK(sign, p, date, t, time) ==
  LET tk == DurToks(date, t, time)
      ts == {i \in DOMAIN tk : tk[i][2] = "T"}
  IN /\ sign \in {"", "-"} /\ p
     /\ IF ts = {} THEN tk # <<>> /\ PartsOK(tk, FALSE)
        ELSE LET k == CHOOSE i \in ts : TRUE IN
               /\ PartsOK(SubSeq(tk, 1, k - 1), FALSE)
               /\ k < Len(tk) /\ PartsOK(SubSeq(tk, k + 1, Len(tk)), TRUE)
DurationTable == {[sign |-> sg, p |-> p, date |-> d, t |-> t, time |-> ti, ok |-> DurationOK(sg, p, d, t, ti)] :
                    sg \in {"", "-", "+"}, p \in BOOLEAN, d \in DateParts, t \in BOOLEAN, ti \in TimeParts}

(* xs:hexBinary: an even number of hexadecimal digits (white space collapses away at  *)
(* the ends only).  Words over the classes "0" (digit), "a" / "F" (letters), "g" (no  *)
(* hex digit), "s" (a blank).                                                         *)
HexWords == UNION {[1..n -> {"0", "a", "F", "g", "s"}] : n \in 0..4}
HexOK(hw) == LET v == Strip(hw) IN Len(v) % 2 = 0 /\ \A i \in DOMAIN v : v[i] \in {"0", "a", "F"}
HexTable == {[w |-> hw, ok |-> HexOK(hw)] : hw \in HexWords}

(* xs:base64Binary (3.2.16): quads of alphabet characters, single blanks allowed       *)
(* between characters; the last quad may end in '=' after a character whose two low     *)
(* bits are zero ("E": AEIMQUYcgkosw048) or in '==' after one whose four low bits are   *)
(* zero ("Q": AQgw).  Classes: "B" any other alphabet character, "E", "Q", "=", "s",     *)
(* "x" (outside the alphabet).                                                          *)
B64Words == UNION {[1..n -> {"B", "E", "Q", "=", "s"}] : n \in 0..4}
              \cup {<<"B", "B", "B", "B", "B", "Q", "=", "=">>, <<"B", "B", "B", "B", "B", "B", "=", "=">>,
                    <<"B", "B", "s", "B", "B">>, <<"B", "B", "s", "s", "B", "B">>, <<"B", "x", "B", "B">>,
                    <<"B", "B", "B", "B", "B">>, <<"B", "Q", "=", "s", "=">>}
NoBlank(bw) == SelectSeq(bw, LAMBDA c : c # "s")
IsAlpha(c) == c \in {"B", "E", "Q"}
B64OK(bw) ==
  LET v == NoBlank(Collapse(bw))  n == Len(v) IN      \* whiteSpace = collapse: blanks end up single
  /\ n % 4 = 0
  /\ \A i \in 1..n : i <= n - 4 => IsAlpha(v[i])
  /\ n = 0 \/ LET q == SubSeq(v, n - 3, n) IN
                \/ \A i \in 1..4 : IsAlpha(q[i])
                \/ (IsAlpha(q[1]) /\ IsAlpha(q[2]) /\ q[3] \in {"E", "Q"} /\ q[4] = "=")
                \/ (IsAlpha(q[1]) /\ q[2] = "Q" /\ q[3] = "=" /\ q[4] = "=")
B64Table == {[w |-> bw, ok |-> B64OK(bw)] : bw \in B64Words}

------------------------------------------------------------------------------
(* Further facets.  None == 99 stands for "facet not given".                      *)
(* length family on xs:string (measured in characters of the value as written:     *)
(* whiteSpace = preserve); values are given by their length.                       *)
StrFacets == {f \in [len : {99, 2}, minl : {99, 1, 3}, maxl : {99, 2, 3}] :
                f.len = 99 \/ (f.minl = 99 /\ f.maxl = 99)}        \* length excludes the other two (XSD 1.0)
StrLens == 0..4
StrOK(f, n) == /\ (f.len # 99 => n = f.len) /\ (f.minl # 99 => n >= f.minl) /\ (f.maxl # 99 => n <= f.maxl)
StrTable == {[f |-> f, n |-> n, ok |-> StrOK(f, n)] : f \in StrFacets, n \in StrLens}

(* digits on xs:decimal: both count digits of the VALUE v = i * 10^-n (trailing fraction   *)
(* zeros and leading zeros do not count; 0.05 is i = 5, n = 2 and needs totalDigits >= 2).  *)
(* Candidates are ALL decimal class words of length <= 5 over "0", "7", "." with an optional *)
(* minus sign, so every shape of zero / leading zero / missing integer part is there.        *)
RECURSIVE DecWordsOfLen(_)
DecWordsOfLen(n) == IF n = 0 THEN {<<>>}
                    ELSE {Append(u, c) : u \in DecWordsOfLen(n - 1), c \in {"0", "7", "."}}
DecWords == {u \in UNION {DecWordsOfLen(n) : n \in 1..5} : DecimalLex(u)}
DecCands == DecWords \cup {<<"-">> \o u : u \in {x \in DecWords : Len(x) <= 4}}
TotalDigitsOf(u) == Len(Denote(u).int) + Len(Denote(u).frac)
FracDigitsOf(u)  == Len(Denote(u).frac)
DigFacets == {g \in [td : {99, 1, 2, 3}, fd : {99, 0, 1, 2, 3}] : g.td = 99 \/ g.fd = 99 \/ g.fd <= g.td}
DigOK(f, u) == (f.td # 99 => TotalDigitsOf(u) <= f.td) /\ (f.fd # 99 => FracDigitsOf(u) <= f.fd)
DigTable == {[f |-> f, w |-> u, ok |-> DigOK(f, u), val |-> Denote(u)] : f \in DigFacets, u \in DecCands}

(* whiteSpace on string types: a restriction may only STRENGTHEN the whiteSpace of its base    *)
(* (preserve < replace < collapse); the length family, enumeration and the decoded value all   *)
(* see the text normalised by the EFFECTIVE whiteSpace - also when whiteSpace was fixed in an  *)
(* earlier derivation step (two = TRUE: step 1 carries whiteSpace, step 2 the other facet).    *)
(* Words over "a" (a letter), "s" (space), "t" (tab).                                          *)
WsRank(x) == CASE x = "preserve" -> 0 [] x = "replace" -> 1 [] x = "collapse" -> 2
WsOfBase(b) == CASE b = "string" -> "preserve" [] b = "normalizedString" -> "replace" [] b = "token" -> "collapse"
ReplaceWs(u) == [i \in DOMAIN u |-> IF u[i] \in WS THEN "s" ELSE u[i]]
NormalizeWs(mode, u) == CASE mode = "preserve" -> u [] mode = "replace" -> ReplaceWs(u) [] mode = "collapse" -> Collapse(u)
RECURSIVE WsWordsOfLen(_)
WsWordsOfLen(n) == IF n = 0 THEN {<<>>} ELSE {Append(u, c) : u \in WsWordsOfLen(n - 1), c \in {"a", "s", "t"}}
WsWords == UNION {WsWordsOfLen(n) : n \in 0..4}
WsRows == {r \in [base : {"string", "normalizedString", "token"}, ws : {"-", "preserve", "replace", "collapse"},
                  fac : {"-", "len2", "min1", "max2", "enum"}, two : BOOLEAN] :
             /\ (r.ws # "-" => WsRank(r.ws) >= WsRank(WsOfBase(r.base)))
             /\ (r.two => r.ws # "-" /\ r.fac # "-")}
WsEff(r) == IF r.ws = "-" THEN WsOfBase(r.base) ELSE r.ws
WsFacOK(fac, v) == CASE fac = "-" -> TRUE [] fac = "len2" -> Len(v) = 2 [] fac = "min1" -> Len(v) >= 1
                     [] fac = "max2" -> Len(v) <= 2 [] fac = "enum" -> v \in {<<"a", "s", "a">>, <<"a">>}
WsTable == {[r |-> r, w |-> u, v |-> NormalizeWs(WsEff(r), u), ok |-> WsFacOK(r.fac, NormalizeWs(WsEff(r), u))] :
              r \in WsRows, u \in WsWords}
(* laws *)
ASSUME \A u \in WsWords : Collapse(ReplaceWs(u)) = Collapse(u)                  \* collapse subsumes replace
ASSUME \A u \in WsWords : \A m \in {"preserve", "replace", "collapse"} :
          NormalizeWs(m, NormalizeWs(m, u)) = NormalizeWs(m, u)                  \* idempotent
ASSUME \A u \in DecCands : FracDigitsOf(u) <= TotalDigitsOf(u)

(* pattern [a-c]{2} on xs:string (preserve) and xs:token (collapse): the pattern sees the *)
(* normalised value                                                                      *)
PatCands == {"ab", "abc", "d", "_ab", "ab_", "a_b", "cc"}        \* "_" is a blank
PatOK(base, x) == CASE base = "string" -> x \in {"ab", "cc"}
                    [] base = "token"  -> x \in {"ab", "cc", "_ab", "ab_"}
PatTable == {[base |-> b, x |-> x, ok |-> PatOK(b, x)] : b \in {"string", "token"}, x \in PatCands}

(* XSD 1.1 explicitTimezone on xs:date *)
TzTable == {[tz |-> tz, z |-> z, ok |-> (tz = "optional" \/ (tz = "required") = (z # ""))] :
              tz \in {"optional", "required", "prohibited"}, z \in {"", "Z", "+01:00"}}

------------------------------------------------------------------------------
(* The word machine: builds class words symbol by symbol; a word that holds a  *)
(* hostile class can never become valid and is not extended.                   *)
CONSTANTS MaxLen, Kinds
VARIABLES kind, w
Init == kind \in Kinds /\ w = <<>>
Append1(c) == /\ Len(w) < MaxLen
              /\ \A i \in DOMAIN w : w[i] \notin Hostile
              /\ w' = Append(w, c) /\ UNCHANGED kind
Next == \E c \in Classes : Append1(c)
Spec == Init /\ [][Next]_<<kind, w>>

(* laws of the word level *)
CollapseIdempotent == Collapse(Collapse(w)) = Collapse(w)
HostileNeverValid  == (\E i \in DOMAIN w : w[i] \in Hostile) => ~LexOK(kind, w)
IntegerIsDecimal   == IntegerLex(Collapse(w)) => DecimalLex(Collapse(w))
(* the canonical form denotes the same value *)
Canon(v) == (IF v.sign = "-" THEN <<"-">> ELSE <<>>) \o (IF v.int = <<>> THEN <<"0">> ELSE v.int)
            \o (IF v.frac = <<>> THEN <<>> ELSE <<".">> \o v.frac)
CanonRoundTrip == DecimalLex(Collapse(w)) =>
                    /\ DecimalLex(Canon(Denote(Collapse(w))))
                    /\ Denote(Canon(Denote(Collapse(w)))) = Denote(Collapse(w))

EmitWord == PrintT(ToJson([kind |-> kind, w |-> w, ok |-> LexOK(kind, w),
                           val |-> IF LexOK(kind, w) THEN Denote(Collapse(w))
                                   ELSE [sign |-> "+", int |-> <<>>, frac |-> <<>>]]))
=============================================================================
