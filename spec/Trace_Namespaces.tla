--------------------------- MODULE Trace_Namespaces ---------------------------
(* Batch validation of recorded ns.setctx events (hook in                      *)
(* NamespaceMapper.set_xmlns_context) against the mapper of Namespaces.tla.    *)
(* Trace file: JSON array of traces                                            *)
(*   [doc |-> <<element...>>,  ev |-> <<[node, lvl, map, rev, depth]...>>]      *)
(* node = 1-based index (document order) of the element the call was made for, *)
(* map = [p |-> uri, q |-> uri, d |-> uri] ("-" unbound; d is the default      *)
(* prefix), rev = sequence of <<uri, prefix>>, depth = saved contexts.         *)
(* Un-logged: the saved contexts themselves and which reverse entry the        *)
(* specification would pick - only soundness of the logged reverse is asked.   *)
EXTENDS Namespaces, IOUtils, Sequences

Traces == JsonDeserialize(IOEnv.TRACE_FILE)
ASSUME TLCSet(1, {})
ASSUME TLCSet(2, {})

VARIABLES tid, l, path, why
tvars == <<vars, tid, l, path, why>>

Ev(i)  == Traces[tid].ev[i]
Doc    == Traces[tid].doc
Decls(e) == {<<IF d[1] = "d" THEN "" ELSE d[1], d[2]>> : d \in SeqToSet(e.decls)}
LogMap(e) == [x \in Prefix |-> IF x = "" THEN e.map.d ELSE IF x = "p" THEN e.map.p ELSE e.map.q]
LogRev(e) == [u \in {x[1] : x \in SeqToSet(e.rev)} |->
                LET x == CHOOSE x \in SeqToSet(e.rev) : x[1] = u IN IF x[2] = "d" THEN "" ELSE x[2]]

TInit == /\ tid \in 1..Len(Traces)
         /\ l = 1 /\ path = <<>> /\ why = "ok"
         /\ doc = <<>> /\ open = <<>> /\ last = 0 /\ ctx = <<>>
         \* the decoder pre-loads the root element's declarations into the mapper
         /\ map = Apply(EmptyMap, Decls(Traces[tid].doc[1]))
         /\ rev = NewRev(Apply(EmptyMap, Decls(Traces[tid].doc[1])), NoRev, Decls(Traces[tid].doc[1]))

Check(e, ms) ==
  IF ms.map # LogMap(e) THEN "map differs from the specification's in-scope map"
  ELSE IF ~RevSound(LogMap(e), LogRev(e)) THEN "reverse map entry points to a prefix bound to another namespace"
  ELSE IF Len(ms.ctx) # e.depth THEN "context stack depth differs"
  ELSE "ok"

(* silent: leave elements until the next call's element can be placed *)
TClose == /\ l <= Len(Traces[tid].ev) /\ why = "ok"
          /\ LET e == Ev(l) IN
               \/ (e.node = Len(doc) + 1 /\ Len(open) > e.lvl)
               \/ (e.node <= Len(doc) /\ \E i \in DOMAIN path : path[i] = e.node /\ i < Len(path))
          /\ open' = SubSeq(open, 1, Len(open) - 1)
          /\ path' = SubSeq(path, 1, Len(path) - 1)
          /\ UNCHANGED <<doc, map, rev, ctx, last, tid, l, why>>

TOpen == /\ l <= Len(Traces[tid].ev) /\ why = "ok"
         /\ LET e == Ev(l) IN
              /\ e.node = Len(doc) + 1 /\ Len(open) = e.lvl /\ e.node <= Len(Doc)
              /\ LET el  == Doc[e.node]
                     D   == Decls(el)
                     ms2 == SetCtxNew(MS, e.lvl, D)
                     outer == IF open = <<>> THEN EmptyMap ELSE open[Len(open)]
                 IN /\ doc' = Append(doc, el)
                    /\ open' = Append(open, Apply(outer, D))
                    /\ path' = Append(path, e.node)
                    /\ map' = ms2.map /\ rev' = ms2.rev /\ ctx' = ms2.ctx
                    /\ last' = e.lvl + 1
                    /\ why' = IF el.lvl # e.lvl THEN "call level differs from the element's depth"
                              ELSE Check(e, ms2)
         /\ l' = l + 1 /\ UNCHANGED tid

TRevisit == /\ l <= Len(Traces[tid].ev) /\ why = "ok"
            /\ LET e == Ev(l) IN
                 /\ path # <<>> /\ path[Len(path)] = e.node
                 /\ LET ms2 == SetCtxRevisit(MS, e.lvl) IN
                      /\ map' = ms2.map /\ rev' = ms2.rev /\ ctx' = ms2.ctx
                      /\ why' = IF e.lvl # Len(open) - 1 THEN "revisit at a different level"
                                ELSE Check(e, ms2)
                 /\ last' = e.lvl + 1
            /\ l' = l + 1 /\ UNCHANGED <<doc, open, path, tid>>

TNext == TClose \/ TOpen \/ TRevisit
TSpec == TInit /\ [][TNext]_tvars

Done == l = Len(Traces[tid].ev) + 1 /\ why = "ok"
Mark == /\ (Done => TLCSet(1, TLCGet(1) \cup {tid}))
        /\ (why # "ok" => TLCSet(2, TLCGet(2) \cup {<<tid, l - 1, why>>}))
        /\ TRUE
Post == /\ PrintT(<<"accepted", Cardinality(TLCGet(1)), "of", Len(Traces)>>)
        /\ PrintT(<<"rejected", (1..Len(Traces)) \ TLCGet(1)>>)
        /\ PrintT(<<"reasons", TLCGet(2)>>)
=============================================================================
