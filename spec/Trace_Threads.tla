----------------------------- MODULE Trace_Threads -----------------------------
(* Batch validation of the lock.* events recorded in XsdGlobals.build() (sequence   *)
(* numbers are taken under the tracer's own lock, lock.acquired / clear / built are  *)
(* emitted while the build lock is held) and of the `use` events recorded by the     *)
(* driver after build() returned, against the discipline of Threads.tla:             *)
(*   fast(t)            the unlocked test saw the flag set: it must be set           *)
(*   acquired(t, b)     t holds the lock; b is the flag it re-reads: must equal ours *)
(*   clear(t)           t starts THE build: it holds the lock, the flag is not set,  *)
(*                      nobody has built before                                      *)
(*   built(t)           t finished the build it started                              *)
(*   use(t, complete)   after build() returned: flag set and the maps complete       *)
(* A trace is [ev |-> <<[e, t, b]...>>].                                             *)
EXTENDS Naturals, Sequences, FiniteSets, TLC, Json, IOUtils

Traces == JsonDeserialize(IOEnv.TRACE_FILE)
ASSUME TLCSet(1, {})
ASSUME TLCSet(2, {})
VARIABLES tid, l, holder, built, maps, builds, why
vars == <<tid, l, holder, built, maps, builds, why>>
Ev(i) == Traces[tid].ev[i]

Init == tid \in 1..Len(Traces) /\ l = 1 /\ holder = 0 /\ built = FALSE /\ maps = "empty"
        /\ builds = 0 /\ why = "ok"
Step ==
  /\ l <= Len(Traces[tid].ev) /\ why = "ok"
  /\ LET e == Ev(l) IN
       CASE e.e = "fast" ->
              /\ why' = IF built THEN "ok" ELSE "fast path taken although the flag was never set"
              /\ UNCHANGED <<holder, built, maps, builds>>
         [] e.e = "acquired" ->
              /\ why' = IF e.b # built THEN "flag read under the lock differs from the build state"
                        ELSE IF maps = "partial" THEN "lock acquired while another build is in progress"
                        ELSE "ok"
              /\ holder' = e.t /\ UNCHANGED <<built, maps, builds>>
         [] e.e = "clear" ->
              /\ why' = IF holder # e.t THEN "maps cleared by a thread that does not hold the lock"
                        ELSE IF built \/ builds > 0 THEN "the schema is built a second time"
                        ELSE "ok"
              /\ maps' = "partial" /\ builds' = builds + 1 /\ UNCHANGED <<holder, built>>
         [] e.e = "built" ->
              /\ why' = IF holder # e.t \/ maps # "partial" THEN "flag set by a thread that is not building"
                        ELSE "ok"
              /\ maps' = "full" /\ built' = TRUE /\ UNCHANGED <<holder, builds>>
         [] e.e = "use" ->
              /\ why' = IF ~built THEN "build() returned although the schema is not built"
                        ELSE IF ~e.b THEN "a thread that returned from build() saw incomplete maps"
                        ELSE "ok"
              /\ UNCHANGED <<holder, built, maps, builds>>
  /\ l' = l + 1 /\ UNCHANGED tid
Spec == Init /\ [][Step]_vars

BuiltOnce == builds <= 1
Done == l = Len(Traces[tid].ev) + 1 /\ why = "ok" /\ builds = 1
Mark == /\ (Done => TLCSet(1, TLCGet(1) \cup {tid}))
        /\ (why # "ok" => TLCSet(2, TLCGet(2) \cup {<<tid, l - 1, why>>}))
Post == /\ PrintT(<<"accepted", Cardinality(TLCGet(1)), "of", Len(Traces)>>)
        /\ PrintT(<<"rejected", (1..Len(Traces)) \ TLCGet(1)>>)
        /\ PrintT(<<"reasons", TLCGet(2)>>)
=============================================================================
