SPECIFICATION RSpec
VIEW RView
INVARIANT NarrowingNarrows
CONSTRAINT EmitR
CHECK_DEADLOCK FALSE
