SPECIFICATION Spec
CONSTRAINT Emit
CHECK_DEADLOCK FALSE
