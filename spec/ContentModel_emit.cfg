SPECIFICATION Spec
INVARIANT Agree
INVARIANT PruneSubset
INVARIANT PruneOnlyMixed
CONSTRAINT EmitWord
CHECK_DEADLOCK FALSE
