------------------------------ MODULE Trace_Build ------------------------------
(* Batch validation of recorded build.begin / build.end / build.circular events  *)
(* (hooks in StagedMap._build_global) against the discipline of Build.tla:       *)
(* the builds form a stack; a name is begun at most once; it is a marker exactly *)
(* while it is on the stack; an end pops the top; a circularity is reported only *)
(* for a name that is being built.  The dependency lists are NOT logged: any     *)
(* staged name may be begun on demand.  Trace: [ev |-> <<[e, k]...>>] with e in  *)
(* {"begin", "end", "circular"} and k the key "<map>:<qname>".                   *)
EXTENDS Naturals, Sequences, FiniteSets, TLC, Json, IOUtils

Traces == JsonDeserialize(IOEnv.TRACE_FILE)
ASSUME TLCSet(1, {})
ASSUME TLCSet(2, {})

VARIABLES tid, l, stack, built, why
vars == <<tid, l, stack, built, why>>
Ev(i) == Traces[tid].ev[i]
OnStack(k) == \E i \in DOMAIN stack : stack[i] = k

Init == tid \in 1..Len(Traces) /\ l = 1 /\ stack = <<>> /\ built = {} /\ why = "ok"
Step == /\ l <= Len(Traces[tid].ev) /\ why = "ok"
        /\ LET e == Ev(l) IN
             CASE e.e = "begin" ->
                    IF OnStack(e.k) THEN why' = "begin of a name that is being built" /\ UNCHANGED <<stack, built>>
                    ELSE IF e.k \in built THEN why' = "a name is built twice" /\ UNCHANGED <<stack, built>>
                    ELSE stack' = Append(stack, e.k) /\ UNCHANGED <<built, why>>
               [] e.e = "end" ->
                    IF stack = <<>> \/ stack[Len(stack)] # e.k
                      THEN why' = "end does not match the innermost build" /\ UNCHANGED <<stack, built>>
                    ELSE IF e.staged THEN why' = "staging entry still present after the build" /\ UNCHANGED <<stack, built>>
                    ELSE stack' = SubSeq(stack, 1, Len(stack) - 1) /\ built' = built \cup {e.k} /\ UNCHANGED why
               [] e.e = "circular" ->
                    IF OnStack(e.k) THEN UNCHANGED <<stack, built, why>>
                    ELSE why' = "circularity reported for a name that is not being built" /\ UNCHANGED <<stack, built>>
        /\ l' = l + 1 /\ UNCHANGED tid
Spec == Init /\ [][Step]_vars

(* the recorded builds all succeeded: nothing may be left on the stack *)
Done == l = Len(Traces[tid].ev) + 1 /\ why = "ok" /\ stack = <<>>
Mark == /\ (Done => TLCSet(1, TLCGet(1) \cup {tid}))
        /\ (why # "ok" => TLCSet(2, TLCGet(2) \cup {<<tid, l - 1, why>>}))
Post == /\ PrintT(<<"accepted", Cardinality(TLCGet(1)), "of", Len(Traces)>>)
        /\ PrintT(<<"rejected", (1..Len(Traces)) \ TLCGet(1)>>)
        /\ PrintT(<<"reasons", TLCGet(2)>>)
=============================================================================
