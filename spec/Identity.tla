------------------------------ MODULE Identity ------------------------------
(* Identity constraints: unique / key / keyref with scopes, and ID / IDREF.   *)
(*                                                                          *)
(* Abstract document: a root r holding a sequence of scope elements s, each   *)
(* holding a sequence of rows.  A row is                                      *)
(*    [k |-> "k", t |-> tuple]   selected by the key / unique constraint      *)
(*    [k |-> "f", t |-> tuple]   selected by the keyref                       *)
(*    [k |-> "i", t |-> <<v>>]   carries an xs:ID attribute                   *)
(*    [k |-> "p", t |-> <<v>>]   carries an xs:IDREF attribute                *)
(*    [k |-> "j", t |-> <<v>>]   an element whose CONTENT is of type xs:ID     *)
(*    [k |-> "q", t |-> <<v, w>>] carries an xs:IDREFS attribute (two refs)     *)
(* tuple components are VALUES (classes of the value space; the renderer      *)
(* picks different lexical forms for equal values) or None (field absent).   *)
(*                                                                          *)
(* Level = "inner": the constraints are declared on s (one table per s);     *)
(* Level = "outer": declared on r with selector s/k (one table per document).*)
(* Level = "cross": the key / unique is declared on s, the key reference on r  *)
(* (selector s/f): the node tables of the scope elements are PROPAGATED to r   *)
(* (Identity-constraint Satisfied, clause 4.2.2 / 4.2.3): r sees the union of   *)
(* the tables of its children minus the key sequences that occur in more than  *)
(* one of them (conflicts are dropped), and the references of r resolve in it.  *)
(* CrossVariant = "lastscope" is the implementation-shaped deviation: the        *)
(* references resolve against the table of the LAST scope element only.         *)
(*                                                                          *)
(* Two formulations: the streaming machine (what a one-pass validator does:  *)
(* reset tables on entering the declaring element, collect on every selected *)
(* node, resolve key references on leaving it, IDREFs at the end of the      *)
(* document) and the declarative definition over the finished document       *)
(* (qualified node sets).  Invariant StreamingIsDeclarative relates them.    *)
EXTENDS XsdBase, TLC, Json

CONSTANTS NF,         \* number of fields: 1 or 2
          KeyKind,    \* "key" | "unique"
          Level,      \* "inner" | "outer"
          MaxRows,    \* rows in the whole document
          MaxScopes,  \* scope elements
          RowKinds,   \* subset of {"k", "f", "i", "p", "j", "q"}
          IdVer       \* "1.0" | "1.1": an ID-typed CHILD element identifies ... (see Binder)
CrossVariant == "intended"     \* the refutation run substitutes LastScopeVariant (cfg: CrossVariant <- LastScopeVariant)
LastScopeVariant == "lastscope"

None == "none"
Val == {"v1", "v2"}
FieldVal == Val \cup {None}
Tuples == [1..NF -> FieldVal]
IdTuples == [1..1 -> Val]
RefsTuples == [1..2 -> Val]
RowsOf(kind) == IF kind \in {"k", "f"} THEN {[k |-> kind, t |-> t] : t \in Tuples}
                ELSE IF kind = "q" THEN {[k |-> kind, t |-> t] : t \in RefsTuples}
                ELSE {[k |-> kind, t |-> t] : t \in IdTuples}
Rows == UNION {RowsOf(kind) : kind \in RowKinds}

Qualified(t) == \A i \in DOMAIN t : t[i] # None

------------------------------------------------------------------------------
(* Declarative reading over a finished document (sequence of scopes)          *)
Flatten(d) == LET RECURSIVE F(_)
                  F(i) == IF i > Len(d) THEN <<>> ELSE d[i] \o F(i + 1)
              IN F(1)
Tables(d) == IF Level \in {"inner", "cross"} THEN d ELSE <<Flatten(d)>>       \* one table per declaring element
KeyRows(tb) == {i \in DOMAIN tb : tb[i].k = "k"}
RefRows(tb) == {i \in DOMAIN tb : tb[i].k = "f"}
DeclDup(tb) == \E i \in KeyRows(tb) : \E j \in KeyRows(tb) :
                  i # j /\ Qualified(tb[i].t) /\ tb[i].t = tb[j].t
DeclMissing(tb) == KeyKind = "key" /\ \E i \in KeyRows(tb) : ~Qualified(tb[i].t)
DeclDangling(tb) == \E i \in RefRows(tb) :
                      /\ Qualified(tb[i].t)
                      /\ ~\E j \in KeyRows(tb) : Qualified(tb[j].t) /\ tb[j].t = tb[i].t
(* cross level: the table that r inherits from its children, and the references of r *)
KeySeqs(tb) == {tb[i].t : i \in {j \in KeyRows(tb) : Qualified(tb[j].t)}}
Propagated(d) == {t \in Tuples : Cardinality({sc \in DOMAIN d : t \in KeySeqs(d[sc])}) = 1}
LastScopeOnly(d) == IF d = <<>> THEN {} ELSE KeySeqs(d[Len(d)])
AllRefs(d) == LET f == Flatten(d) IN {f[i].t : i \in {j \in RefRows(f) : Qualified(f[j].t)}}
CrossDanglingIn(d, table) == \E t \in AllRefs(d) : t \notin table
IdRows(d)  == LET f == Flatten(d) IN {i \in DOMAIN f : f[i].k \in {"i", "j"}}
(* Which element an ID value identifies.  An ID-typed ATTRIBUTE identifies its owner (the row). *)
(* An ID-typed child ELEMENT: in XSD 1.0 every occurrence counts on its own; in XSD 1.1 it       *)
(* identifies its PARENT (here the scope element), and the same element may be identified by     *)
(* the same value more than once - a value is duplicated only when it identifies two DIFFERENT   *)
(* elements (3.17.5.2).                                                                          *)
Binder(k, sc, rw) == IF k = "j" /\ IdVer = "1.1" THEN <<sc, 0>> ELSE <<sc, rw>>
IdBindings(d) == UNION {{<<d[sc][rw].t, Binder(d[sc][rw].k, sc, rw)>> :
                            rw \in {x \in DOMAIN d[sc] : d[sc][x].k \in {"i", "j"}}} : sc \in DOMAIN d}
DeclIdDup(d) == \E a \in IdBindings(d) : \E b \in IdBindings(d) : a[1] = b[1] /\ a[2] # b[2]
DeclIdref(d) == LET f == Flatten(d) IN
                \/ \E i \in DOMAIN f : f[i].k = "p" /\ ~\E j \in IdRows(d) : f[j].t = f[i].t
                \/ \E i \in DOMAIN f : f[i].k = "q" /\ \E c \in 1..2 : ~\E j \in IdRows(d) : f[j].t = <<f[i].t[c]>>
DeclKinds(d) ==
  (IF \E x \in DOMAIN Tables(d) : DeclDup(Tables(d)[x]) THEN {"dup"} ELSE {})
  \cup (IF \E x \in DOMAIN Tables(d) : DeclMissing(Tables(d)[x]) THEN {"missing"} ELSE {})
  \cup (IF Level # "cross" /\ \E x \in DOMAIN Tables(d) : DeclDangling(Tables(d)[x]) THEN {"dangling"} ELSE {})
  \cup (IF Level = "cross" /\ CrossDanglingIn(d, Propagated(d)) THEN {"dangling"} ELSE {})
  \cup (IF DeclIdDup(d) THEN {"iddup"} ELSE {})
  \cup (IF DeclIdref(d) THEN {"idref"} ELSE {})
(* what the deviation "lastscope" reports *)
LastScopeKinds(d) == (DeclKinds(d) \ {"dangling"})
                     \cup (IF CrossDanglingIn(d, LastScopeOnly(d)) THEN {"dangling"} ELSE {})

------------------------------------------------------------------------------
(* The streaming machine                                                      *)
VARIABLES doc,      \* ghost: the document read so far (sequence of scopes)
          phase,    \* "root" (between scopes) | "scope" (inside an s) | "done"
          keys,     \* tuple -> count, for the current table
          refs,     \* set of qualified keyref tuples of the current table
          ids,      \* set of ID values seen in the document
          idrefs,   \* set of IDREF values seen in the document
          errs,     \* error kinds reported so far
          nrows,
          up        \* cross level: tuple -> number of finished scopes whose table holds it (the propagation)
vars == <<doc, phase, keys, refs, ids, idrefs, errs, nrows, up>>

EmptyTab == [t \in Tuples |-> 0]

Init == /\ doc = <<>> /\ phase = "root" /\ keys = EmptyTab /\ refs = {}
        /\ ids = {} /\ idrefs = {} /\ errs = {} /\ nrows = 0 /\ up = EmptyTab

Resolve(ks, rs) == IF \E t \in rs : ks[t] = 0 THEN {"dangling"} ELSE {}

(* entering a scope element: the declaring element of an inner constraint     *)
EnterScope == /\ phase = "root" /\ Len(doc) < MaxScopes
              /\ doc' = Append(doc, <<>>)
              /\ phase' = "scope"
              /\ CASE Level = "inner" -> keys' = EmptyTab /\ refs' = {}
                   [] Level = "cross" -> keys' = EmptyTab /\ UNCHANGED refs      \* the references belong to r
                   [] OTHER -> UNCHANGED <<keys, refs>>
              /\ UNCHANGED <<ids, idrefs, errs, nrows, up>>

Select(r) == /\ phase = "scope" /\ nrows < MaxRows
             /\ doc' = [doc EXCEPT ![Len(doc)] = Append(@, r)]
             /\ nrows' = nrows + 1
             /\ CASE r.k = "k" ->
                       /\ UNCHANGED <<refs, ids, idrefs>>
                       /\ IF Qualified(r.t)
                            THEN /\ keys' = [keys EXCEPT ![r.t] = @ + 1]
                                 /\ errs' = errs \cup (IF keys[r.t] >= 1 THEN {"dup"} ELSE {})
                            ELSE /\ keys' = keys
                                 /\ errs' = errs \cup (IF KeyKind = "key" THEN {"missing"} ELSE {})
                  [] r.k = "f" ->
                       /\ UNCHANGED <<keys, ids, idrefs, errs>>
                       /\ refs' = IF Qualified(r.t) THEN refs \cup {r.t} ELSE refs
                  [] r.k \in {"i", "j"} ->
                       /\ UNCHANGED <<keys, refs, idrefs>>
                       /\ LET b == Binder(r.k, Len(doc), Len(doc[Len(doc)]) + 1) IN
                            /\ ids' = ids \cup {<<r.t, b>>}
                            /\ errs' = errs \cup (IF \E x \in ids : x[1] = r.t /\ x[2] # b THEN {"iddup"} ELSE {})
                  [] r.k = "p" ->
                       /\ UNCHANGED <<keys, refs, ids, errs>>
                       /\ idrefs' = idrefs \cup {r.t}
                  [] r.k = "q" ->
                       /\ UNCHANGED <<keys, refs, ids, errs>>
                       /\ idrefs' = idrefs \cup {<<r.t[1]>>, <<r.t[2]>>}
             /\ UNCHANGED <<phase, up>>

(* leaving the scope element: key references of an inner constraint resolve   *)
LeaveScope == /\ phase = "scope"
              /\ phase' = "root"
              /\ errs' = errs \cup (IF Level = "inner" THEN Resolve(keys, refs) ELSE {})
              /\ up' = IF Level = "cross" THEN [t \in Tuples |-> up[t] + (IF keys[t] > 0 THEN 1 ELSE 0)] ELSE up
              /\ UNCHANGED <<doc, keys, refs, ids, idrefs, nrows>>

(* end of the root element / document *)
EndDoc == /\ phase = "root"
          /\ phase' = "done"
          /\ errs' = errs \cup (IF Level = "outer" THEN Resolve(keys, refs) ELSE {})
                          \cup (IF Level = "cross" /\ CrossVariant = "intended" /\ \E t \in refs : up[t] # 1
                                  THEN {"dangling"} ELSE {})
                          \cup (IF Level = "cross" /\ CrossVariant = "lastscope" /\ \E t \in refs : keys[t] = 0
                                  THEN {"dangling"} ELSE {})
                          \cup (IF idrefs \subseteq {x[1] : x \in ids} THEN {} ELSE {"idref"})
          /\ UNCHANGED <<doc, keys, refs, ids, idrefs, nrows, up>>

Next == EnterScope \/ LeaveScope \/ EndDoc \/ \E r \in Rows : Select(r)
Spec == Init /\ [][Next]_vars

------------------------------------------------------------------------------
StreamingIsDeclarative == phase = "done" => errs = DeclKinds(doc)
(* errors are never retracted *)
ErrorsMonotone == [][errs \subseteq errs']_vars

Emit == IF phase = "done"
        THEN PrintT(ToJson([nf |-> NF, kind |-> KeyKind, level |-> Level, doc |-> doc,
                            kinds |-> errs, lastscope |-> LastScopeKinds(doc)]))
        ELSE TRUE
=============================================================================
