------------------------------- MODULE History -------------------------------
(* C10: what a schema object answers must not depend on what it processed       *)
(* before.                                                                      *)
(*                                                                            *)
(* Scenario with real cross-call state (elements.py: XsdElement.xsi_types,      *)
(* identities.py: XsdIdentity.update_elements): two root elements X and Y, each  *)
(* with its own unique constraint (I1, I2, selector .//c) over the children c    *)
(* that an element e only has when it is retyped with xsi:type = T2.             *)
(* A document is [id, retyped, dup]: the root (which identity is in scope),      *)
(* whether e carries xsi:type, whether two c children hold the same key.         *)
(*                                                                            *)
(* Variant "intended": the verdict is a function of the document.               *)
(* Variant "impl": the first time T2 is seen on e the type is recorded and the   *)
(* selectors of the identities ENABLED AT THAT MOMENT are widened; later calls   *)
(* find the type already recorded and widen nothing - the named deviation that   *)
(* TLC refutes (HistoryIndependent) and that the replay confirms on the code.    *)
EXTENDS Naturals, Sequences, FiniteSets, TLC, Json

CONSTANTS Variant, MaxCalls
Identities == {"I1", "I2"}
Docs == {d \in [id : Identities, retyped : BOOLEAN, dup : BOOLEAN] : d.dup => d.retyped}
Ops == {"is_valid", "iter_errors", "decode_lax", "validate", "lazy"}

VARIABLES xsiSeen,    \* types recorded on element e
          widened,    \* identities whose selector was widened with (e, T2)
          hist        \* sequence of [op, doc, invalid (this variant), fresh (a fresh schema's verdict)]
vars == <<xsiSeen, widened, hist>>

Intended(d) == d.dup

(* <<invalid, xsiSeen', widened'>> of one full validation pass *)
Run(d, seen, wid) ==
  IF Variant = "intended" THEN <<Intended(d), seen, wid>>
  ELSE LET firstUse == d.retyped /\ "T2" \notin seen
           seen2 == IF d.retyped THEN seen \cup {"T2"} ELSE seen
           wid2 == IF firstUse THEN wid \cup {d.id} ELSE wid
           collected == (~d.retyped) \/ (d.id \in wid2)
       IN <<d.dup /\ collected, seen2, wid2>>

Init == xsiSeen = {} /\ widened = {} /\ hist = <<>>
Call(op, d) == LET r == Run(d, xsiSeen, widened)
                   f == Run(d, {}, {})
               IN /\ Len(hist) < MaxCalls
                  /\ hist' = Append(hist, [op |-> op, doc |-> d, invalid |-> r[1], fresh |-> f[1]])
                  /\ xsiSeen' = r[2] /\ widened' = r[3]
Next == \E op \in Ops : \E d \in Docs : Call(op, d)
Spec == Init /\ [][Next]_vars

HistoryIndependent == \A i \in DOMAIN hist : hist[i].invalid = hist[i].fresh
FreshIsIntended    == \A i \in DOMAIN hist : hist[i].fresh = Intended(hist[i].doc)
(* state only grows (what makes the dependence permanent) *)
Monotone == [][xsiSeen \subseteq xsiSeen' /\ widened \subseteq widened']_vars

Emit == IF Len(hist) = MaxCalls THEN PrintT(ToJson([hist |-> hist])) ELSE TRUE
=============================================================================
