-------------------------------- MODULE Build --------------------------------
(* Building the global components of a schema from staged declarations         *)
(* (xmlschema/validators/builders.py StagedMap, xsd_globals.py).               *)
(*                                                                           *)
(* Declarations are loaded into a STAGING map in the order in which the        *)
(* documents list them; build() walks the staging map in that order; building  *)
(* one declaration looks up the declarations it depends on, which builds them  *)
(* on demand (recursion = an explicit stack here).  While a declaration is     *)
(* being built its staging entry is a MARKER: meeting a marker is a            *)
(* circularity.  When a build ends the component moves to the store.           *)
(*                                                                           *)
(* The abstract schema of this module:                                         *)
(*   tB  complex type (x)                 tD  extension of tB (y), uses ag     *)
(*   ag  attribute group (p)              g   model group (ref e)              *)
(*   e   element of type tD               m   element, substitutionGroup e     *)
(*   r   element: sequence(group g, ref m?)                                    *)
(* Deps gives, per declaration, the lookups its build performs, in order.      *)
(* Only the ORDER of the declarations and their split over documents vary.     *)
EXTENDS XsdBase, TLC, Json

Decls == {"tB", "tD", "ag", "g", "e", "m", "r"}
Kind(n) == CASE n \in {"tB", "tD"} -> "type" [] n = "ag" -> "attributeGroup"
             [] n = "g" -> "group" [] OTHER -> "element"
Deps(n) == CASE n = "tB" -> <<>>
             [] n = "tD" -> <<"tB", "ag">>
             [] n = "ag" -> <<>>
             [] n = "g"  -> <<>>            \* the element reference inside a group resolves lazily
             [] n = "e"  -> <<"tD">>
             [] n = "m"  -> <<"e", "tD">>
             [] n = "r"  -> <<"g">>
(* variant with a build-time cycle (a type deriving from itself through another) *)
CONSTANTS Cyclic     \* TRUE: tB is (illegally) derived from tD
DepsOf(n) == IF Cyclic /\ n = "tB" THEN <<"tD">> ELSE Deps(n)

Perms == {p \in [1..Cardinality(Decls) -> Decls] : \A i \in DOMAIN p : \A j \in DOMAIN p : i # j => p[i] # p[j]}

VARIABLES order,     \* the staging order (a permutation of Decls)
          staging,   \* name -> "staged" | "marker" | "gone"
          store,     \* set of built names
          stack,     \* sequence of [n, i]: building n, next lookup is DepsOf(n)[i]
          circ,      \* set of <<builder, looked-up>> pairs that met a marker
          begun      \* name -> number of times its build was started
vars == <<order, staging, store, stack, circ, begun>>

Init == /\ order \in Perms
        /\ staging = [n \in Decls |-> "staged"]
        /\ store = {} /\ stack = <<>> /\ circ = {}
        /\ begun = [n \in Decls |-> 0]

NextStaged == {i \in DOMAIN order : staging[order[i]] = "staged"}
Begin(n) == /\ staging' = [staging EXCEPT ![n] = "marker"]
            /\ begun' = [begun EXCEPT ![n] = @ + 1]
            /\ stack' = Append(stack, [n |-> n, i |-> 1])

(* build(): take the first name still staged *)
Start == /\ stack = <<>> /\ NextStaged # {}
         /\ LET k == CHOOSE i \in NextStaged : \A j \in NextStaged : i <= j IN Begin(order[k])
         /\ UNCHANGED <<order, store, circ>>

Top == stack[Len(stack)]
Advance == [stack EXCEPT ![Len(stack)] = [n |-> Top.n, i |-> Top.i + 1]]

Lookup == /\ stack # <<>> /\ Top.i <= Len(DepsOf(Top.n))
          /\ LET d == DepsOf(Top.n)[Top.i] IN
               CASE d \in store ->
                      /\ stack' = Advance /\ UNCHANGED <<staging, begun, circ>>
                 [] staging[d] = "staged" ->           \* build it on demand, come back later
                      /\ staging' = [staging EXCEPT ![d] = "marker"]
                      /\ begun' = [begun EXCEPT ![d] = @ + 1]
                      /\ stack' = Append(Advance, [n |-> d, i |-> 1])
                      /\ UNCHANGED circ
                 [] staging[d] = "marker" ->           \* circularity: reported, the build goes on
                      /\ circ' = circ \cup {<<Top.n, d>>}
                      /\ stack' = Advance /\ UNCHANGED <<staging, begun>>
          /\ UNCHANGED <<order, store>>

End == /\ stack # <<>> /\ Top.i > Len(DepsOf(Top.n))
       /\ store' = store \cup {Top.n}
       /\ staging' = [staging EXCEPT ![Top.n] = "gone"]
       /\ stack' = SubSeq(stack, 1, Len(stack) - 1)
       /\ UNCHANGED <<order, circ, begun>>

Next == Start \/ Lookup \/ End
Spec == Init /\ [][Next]_vars /\ WF_vars(Next)

------------------------------------------------------------------------------
Terminal == stack = <<>> /\ NextStaged = {}
BeginOnce == \A n \in Decls : begun[n] <= 1
MarkerWhileBuilding == \A n \in Decls :
                         (staging[n] = "marker") = (\E k \in DOMAIN stack : stack[k].n = n)
StoreDisjoint == \A n \in store : staging[n] = "gone"
(* confluence: whatever the order, everything is built; a circularity is      *)
(* reported iff the build-time dependency graph has a cycle                   *)
Confluent == Terminal => store = Decls /\ ((circ # {}) = Cyclic)
(* a dependency is in the store before its dependant *)
DepsFirst == \A n \in store : \A k \in DOMAIN DepsOf(n) :
                DepsOf(n)[k] \in store \/ <<n, DepsOf(n)[k]>> \in circ \/ staging[DepsOf(n)[k]] = "marker"
Finishes == <>Terminal

(* arrangements for the replay: order x split of the declarations over 1-3 documents *)
EmitOrder == IF stack = <<>> /\ store = {} THEN PrintT(ToJson([order |-> order])) ELSE TRUE
=============================================================================
