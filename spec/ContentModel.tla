---------------------------- MODULE ContentModel ----------------------------
(* XSD content models: particles, the language they denote, attribution of    *)
(* children to particles, determinism (Unique Particle Attribution).          *)
(*                                                                          *)
(* A particle is a tuple                                                     *)
(*    <<"e", name, min, max>>     local/global element declaration            *)
(*    <<"h", name, min, max>>     reference to a global substitution head     *)
(*    <<"w", constraint, min, max>>  element wildcard                         *)
(*    <<"s"|"c"|"a", <<kids>>, min, max>>   sequence / choice / all group     *)
(* and its PARTICLE ID is its path (sequence of child indexes) from the root. *)
(*                                                                          *)
(* The operational machine mirrors what a validator does: it keeps the set of *)
(* configurations (residual expressions, one per way of having consumed the  *)
(* children so far, counters included) and steps it child by child.          *)
(* The declarative reading InL(r, w) is the textbook definition; TLC checks   *)
(* that both agree (Agree), and that the static position-automaton test of    *)
(* determinism agrees with the reachability one (StaticAgrees).               *)
EXTENDS XsdBase, TLC, Json

CONSTANTS Ver,        \* "1.0" | "1.1"
          MaxLen,     \* bound on the number of children
          Syms,       \* child names that instances use
          ModelSet    \* the content models to explore

------------------------------------------------------------------------------
(* What a leaf matches.  "m" is a member of the substitution group headed by  *)
(* the global element "a"; "o" is an element of a foreign namespace.          *)
(* "f" is a second head whose only other member is the FOREIGN element "o"    *)
(* "p" and "q" are two heads that SHARE the member "r" (XSD 1.1: substitutionGroup = "p q")    *)
Members(h) == IF h = "a" THEN {"a", "m"} ELSE IF h = "f" THEN {"f", "o"}
              ELSE IF h \in {"p", "q"} THEN {h, "r"} ELSE {h}
(* "u" is an element in NO namespace (##local); the namespace constraints are          *)
(* any, other (not the target namespace and not absent), tns, local, and the lists     *)
(* tl = (##targetNamespace ##local), oo = (urn:O), ol = (urn:O ##local)                *)
(* "z" is an element of a THIRD namespace (urn:Z) that no constraint names: ##other and every   *)
(* notNamespace admit it.  XSD 1.1 negations: nO = notNamespace(urn:O), nT =                    *)
(* notNamespace(##targetNamespace), nOl = notNamespace(urn:O ##local).                         *)
WildDen(c) == CASE c = "any"   -> Syms
                [] c = "other" -> Syms \cap {"o", "z"}
                [] c = "tns"   -> Syms \ {"o", "u", "z"}
                [] c = "local" -> Syms \cap {"u"}
                [] c = "tl"    -> Syms \ {"o", "z"}
                [] c = "oo"    -> Syms \cap {"o"}
                [] c = "ol"    -> Syms \cap {"o", "u"}
                [] c = "nO"    -> Syms \ {"o"}
                [] c = "nT"    -> Syms \cap {"o", "u", "z"}
                [] c = "nOl"   -> Syms \ {"o", "u"}
(* "x": a leaf given by the explicit sequence of names it matches (used when real  *)
(* schemas are projected into this vocabulary: substitution groups, wildcards)    *)
Matches(kind, x, a) == CASE kind = "e" -> a = x
                         [] kind = "h" -> a \in Members(x)
                         [] kind = "w" -> a \in WildDen(x)
                         [] kind = "x" -> \E i \in DOMAIN x : x[i] = a
                         [] kind = "X" -> \E i \in DOMAIN x : x[i] = a      \* explicit set of a WILDCARD
IsLeaf(m) == m[1] \in {"e", "h", "w", "x", "X"}

------------------------------------------------------------------------------
(* Counted regular expressions over positions, with smart constructors        *)
EPS == <<"eps">>
NUL == <<"nul">>
Cat(a, b) == IF a = NUL \/ b = NUL THEN NUL ELSE IF a = EPS THEN b
             ELSE IF b = EPS THEN a ELSE <<"cat", a, b>>
Alt(a, b) == IF a = NUL THEN b ELSE IF b = NUL THEN a ELSE IF a = b THEN a ELSE <<"alt", a, b>>
Rep(r, mn, mx) == IF mx = 0 THEN EPS
                  ELSE IF r = NUL THEN (IF mn = 0 THEN EPS ELSE NUL)
                  ELSE IF r = EPS THEN EPS
                  ELSE IF mn = 1 /\ mx = 1 THEN r ELSE <<"rep", r, mn, mx>>
AllC(ks) == IF \E i \in DOMAIN ks : ks[i] = NUL THEN NUL
            ELSE IF \A i \in DOMAIN ks : ks[i] = EPS THEN EPS ELSE <<"all", ks>>
Dec(n) == IF n = Inf THEN Inf ELSE n - 1

RECURSIVE Conv(_, _), ConvSeq(_, _, _), ConvAlt(_, _, _)
ConvSeq(ks, p, i) == IF i > Len(ks) THEN EPS
                     ELSE Cat(Conv(ks[i], Append(p, i)), ConvSeq(ks, p, i + 1))
(* a particle with maxOccurs = 0 corresponds to no component at all: in a      *)
(* choice it is not an (empty) branch                                         *)
ConvAlt(ks, p, i) == IF i > Len(ks) THEN NUL
                     ELSE IF ks[i][4] = 0 THEN ConvAlt(ks, p, i + 1)
                     ELSE Alt(Conv(ks[i], Append(p, i)), ConvAlt(ks, p, i + 1))
Conv(m, p) ==
  CASE IsLeaf(m)  -> Rep(<<"sym", m[1], m[2], p>>, m[3], m[4])
    [] m[1] = "s" -> Rep(ConvSeq(m[2], p, 1), m[3], m[4])
    [] m[1] = "c" -> Rep(ConvAlt(m[2], p, 1), m[3], m[4])
    [] m[1] = "a" -> Rep(AllC([i \in DOMAIN m[2] |-> Conv(m[2][i], Append(p, i))]), m[3], m[4])

RECURSIVE Nullable(_)
Nullable(r) == CASE r[1] = "eps" -> TRUE
                 [] r[1] \in {"nul", "sym"} -> FALSE
                 [] r[1] = "cat" -> Nullable(r[2]) /\ Nullable(r[3])
                 [] r[1] = "alt" -> Nullable(r[2]) \/ Nullable(r[3])
                 [] r[1] = "rep" -> r[3] = 0 \/ Nullable(r[2])
                 [] r[1] = "all" -> \A i \in DOMAIN r[2] : Nullable(r[2][i])

(* Branches(r, a): one <<pid, kind, residual>> per way of consuming a.        *)
(* A repetition of an emptiable body may also consume a in a later iteration *)
(* (k empty iterations first): that is a different counter configuration.     *)
RECURSIVE Branches(_, _)
Branches(r, a) ==
  CASE r[1] \in {"eps", "nul"} -> {}
    [] r[1] = "sym" -> IF Matches(r[2], r[3], a) THEN {<<r[4], r[2], EPS>>} ELSE {}
    [] r[1] = "cat" -> {<<b[1], b[2], Cat(b[3], r[3])>> : b \in Branches(r[2], a)}
                       \cup (IF Nullable(r[2]) THEN Branches(r[3], a) ELSE {})
    [] r[1] = "alt" -> Branches(r[2], a) \cup Branches(r[3], a)
    [] r[1] = "rep" ->
         LET x   == r[2]
             nmn == IF Nullable(x) \/ r[3] = 0 THEN 0 ELSE r[3] - 1
             lim == IF ~Nullable(x) \/ r[4] = Inf THEN 0 ELSE r[4] - 1
         IN UNION {{<<b[1], b[2], Cat(b[3], Rep(x, IF k = 0 THEN nmn ELSE 0,
                                                  IF r[4] = Inf THEN Inf ELSE r[4] - 1 - k))>>
                      : b \in Branches(x, a)} : k \in 0..lim}
    [] r[1] = "all" ->
         UNION {{<<b[1], b[2], AllC([r[2] EXCEPT ![i] = b[3]])>> : b \in Branches(r[2][i], a)}
                  : i \in DOMAIN r[2]}

Live(bs) == {b \in bs : b[3] # NUL}
AllBranches(C, a) == UNION {Live(Branches(r, a)) : r \in C}

(* XSD 1.1: a wildcard does not take a child that a competing element         *)
(* particle can take (validation path)                                        *)
IsWild(k) == k \in {"w", "X"}
Prune(bs) == IF Ver = "1.1" /\ \E b \in bs : ~IsWild(b[2]) THEN {b \in bs : ~IsWild(b[2])} ELSE bs

Step(C, a)     == {b[3] : b \in Prune(AllBranches(C, a))}
StepLang(C, a) == {b[3] : b \in AllBranches(C, a)}
Attrib(C, a)   == {b[1] : b \in Prune(AllBranches(C, a))}
Accepting(C)   == \E r \in C : Nullable(r)

(* conflicts of one step *)
PidKinds(C, a) == {<<b[1], b[2]>> : b \in AllBranches(C, a)}
UPAConflict(C) ==      \* two different particles compete for the same child
  \E a \in Syms : \E p \in PidKinds(C, a) : \E q \in PidKinds(C, a) :
     /\ p[1] # q[1]
     /\ Ver = "1.0" \/ IsWild(p[2]) = IsWild(q[2])
MixedConflict(C) ==    \* 1.1 only: an element and a wildcard compete
  \E a \in Syms : \E p \in PidKinds(C, a) : \E q \in PidKinds(C, a) :
     p[1] # q[1] /\ IsWild(p[2]) /\ ~IsWild(q[2])
CounterConflict(C) ==  \* some child can be consumed in two ways (particles or counters)
  \E a \in Syms : Cardinality(AllBranches(C, a)) > 1

------------------------------------------------------------------------------
(* Declarative reading                                                        *)
Splits(w) == {<<SubSeq(w, 1, i), SubSeq(w, i + 1, Len(w))>> : i \in 0..Len(w)}
Pick(w, f, i) == LET idx == {j \in DOMAIN w : f[j] = i}
                     RECURSIVE Build(_, _)
                     Build(j, acc) == IF j > Len(w) THEN acc
                                      ELSE Build(j + 1, IF j \in idx THEN Append(acc, w[j]) ELSE acc)
                 IN Build(1, <<>>)
RECURSIVE InL(_, _)
InL(r, w) ==
  CASE r[1] = "eps" -> w = <<>>
    [] r[1] = "nul" -> FALSE
    [] r[1] = "sym" -> Len(w) = 1 /\ Matches(r[2], r[3], w[1])
    [] r[1] = "cat" -> \E s \in Splits(w) : InL(r[2], s[1]) /\ InL(r[3], s[2])
    [] r[1] = "alt" -> InL(r[2], w) \/ InL(r[3], w)
    [] r[1] = "rep" -> \/ (r[3] = 0 /\ w = <<>>)
                       \/ \E s \in Splits(w) :
                            /\ (s[1] # <<>> \/ w = <<>>)
                            /\ InL(r[2], s[1])
                            /\ InL(Rep(r[2], IF r[3] = 0 THEN 0 ELSE r[3] - 1, Dec(r[4])), s[2])
    [] r[1] = "all" -> \E f \in [DOMAIN w -> DOMAIN r[2]] :
                          \A i \in DOMAIN r[2] : InL(r[2][i], Pick(w, f, i))

------------------------------------------------------------------------------
(* Static test of determinism: position automaton of the model with the      *)
(* occurrence ranges unrolled (a position is <<pid, kind, x, copy>>); the     *)
(* model violates UPA iff the first set or some follow set holds two          *)
(* positions of different particles that can match the same child.            *)
RECURSIVE Unroll(_, _, _)
UBase(m, p, c) ==
  CASE IsLeaf(m)  -> <<"pos", <<p, m[1], m[2], c>>>>
    [] m[1] = "s" -> <<"cat", [i \in DOMAIN m[2] |-> Unroll(m[2][i], Append(p, i), c)]>>
    [] m[1] = "c" -> <<"alt", [i \in DOMAIN m[2] |-> Unroll(m[2][i], Append(p, i), c)]>>
    [] m[1] = "a" -> <<"all", [i \in DOMAIN m[2] |-> Unroll(m[2][i], Append(p, i), c)]>>
Unroll(m, p, c) ==
  LET mn == m[3]  mx == m[4]
      n  == IF mx = Inf THEN mn + 1 ELSE mx
  IN IF mx = 0 THEN <<"eps">>
     ELSE <<"cat", [k \in 1..n |->
                      LET u == UBase(m, p, Append(c, k)) IN
                      IF k <= mn THEN u ELSE IF mx = Inf THEN <<"star", u>> ELSE <<"opt", u>>]>>

RECURSIVE UNull(_), First(_), Last(_), Follow(_)
UNull(r) == CASE r[1] = "eps" -> TRUE
              [] r[1] = "pos" -> FALSE
              [] r[1] \in {"cat", "all"} -> \A i \in DOMAIN r[2] : UNull(r[2][i])
              [] r[1] = "alt" -> \E i \in DOMAIN r[2] : UNull(r[2][i])
              [] r[1] \in {"star", "opt"} -> TRUE
First(r) == CASE r[1] = "eps" -> {}
              [] r[1] = "pos" -> {r[2]}
              [] r[1] = "cat" -> UNION {First(r[2][i]) : i \in {j \in DOMAIN r[2] :
                                          \A k \in 1..(j - 1) : UNull(r[2][k])}}
              [] r[1] \in {"alt", "all"} -> UNION {First(r[2][i]) : i \in DOMAIN r[2]}
              [] r[1] \in {"star", "opt"} -> First(r[2])
Last(r) == CASE r[1] = "eps" -> {}
             [] r[1] = "pos" -> {r[2]}
             [] r[1] = "cat" -> UNION {Last(r[2][i]) : i \in {j \in DOMAIN r[2] :
                                         \A k \in (j + 1)..Len(r[2]) : UNull(r[2][k])}}
             [] r[1] \in {"alt", "all"} -> UNION {Last(r[2][i]) : i \in DOMAIN r[2]}
             [] r[1] \in {"star", "opt"} -> Last(r[2])
(* Follow(r): set of pairs <<p, q>>: q may directly follow p *)
Follow(r) ==
  CASE r[1] \in {"eps", "pos"} -> {}
    [] r[1] = "cat" ->
         UNION {Follow(r[2][i]) : i \in DOMAIN r[2]}
         \cup UNION {UNION {Last(r[2][i]) \X First(r[2][j]) :
                              j \in {j \in DOMAIN r[2] :
                                       j > i /\ \A k \in (i + 1)..(j - 1) : UNull(r[2][k])}}
                       : i \in DOMAIN r[2]}
    [] r[1] = "alt" -> UNION {Follow(r[2][i]) : i \in DOMAIN r[2]}
    [] r[1] = "all" -> UNION {Follow(r[2][i]) : i \in DOMAIN r[2]}
                       \cup UNION {UNION {Last(r[2][i]) \X First(r[2][j]) : j \in DOMAIN r[2] \ {i}}
                                     : i \in DOMAIN r[2]}
    [] r[1] = "star" -> Follow(r[2]) \cup (Last(r[2]) \X First(r[2]))
    [] r[1] = "opt" -> Follow(r[2])

PosOverlap(p, q) ==
  /\ p[1] # q[1]
  /\ \E a \in Syms : Matches(p[2], p[3], a) /\ Matches(q[2], q[3], a)
  /\ Ver = "1.0" \/ IsWild(p[2]) = IsWild(q[2])
StaticDet(m) ==
  LET u  == Unroll(m, <<>>, <<>>)
      f  == First(u)
      fo == Follow(u)
  IN /\ \A p \in f : \A q \in f : ~PosOverlap(p, q)
     /\ \A x \in fo : \A y \in fo : x[1] = y[1] => ~PosOverlap(x[2], y[2])

(* Element Declarations Consistent: same-named element particles of one model *)
(* have the same type (a typed leaf carries its type as a 5th component)      *)
RECURSIVE LeafSet(_)
LeafSet(m) == IF IsLeaf(m) THEN {m} ELSE UNION {LeafSet(m[2][i]) : i \in DOMAIN m[2]}
TypeOf(l) == IF Len(l) >= 5 THEN l[5] ELSE "s"
EDC(m) == \A x \in LeafSet(m) : \A y \in LeafSet(m) :
            (x[1] = "e" /\ y[1] = "e" /\ x[2] = y[2]) => TypeOf(x) = TypeOf(y)

RECURSIVE HasAll(_)
HasAll(m) == IF IsLeaf(m) THEN FALSE
             ELSE m[1] = "a" \/ \E i \in DOMAIN m[2] : HasAll(m[2][i])

------------------------------------------------------------------------------
(* Model universes (exhaustive families)                                      *)
OccFull == {<<1, 1>>, <<0, 1>>, <<0, Inf>>, <<1, Inf>>, <<2, 2>>, <<1, 2>>, <<0, 2>>}
OccSmall == {<<1, 1>>, <<0, 1>>, <<1, Inf>>, <<2, 2>>}
ElemLeaves(names, occ) == {<<"e", s, o[1], o[2]>> : s \in names, o \in occ}
Kids12(P) == {<<x>> : x \in P} \cup {<<x, y>> : x \in P, y \in P}
GroupsOver(P, kinds, occ) == {<<k, ks, o[1], o[2]>> : k \in kinds, ks \in Kids12(P), o \in occ}
(* depth 1: sequence/choice of 1-2 element leaves over {a,b}, all 7 ranges *)
Depth1Set(z) == GroupsOver(ElemLeaves({"a", "b"}, OccFull), {"s", "c"}, OccFull)

(* depth 2: one nested group, alone or with a leaf sibling before/after it *)
Nest(inner, leaves) == {<<g>> : g \in inner} \cup {<<g, l>> : g \in inner, l \in leaves}
                       \cup {<<l, g>> : g \in inner, l \in leaves}
OccTiny == {<<1, 1>>, <<0, 1>>, <<2, 2>>}
Depth2QSet(z) == LET inner == GroupsOver(ElemLeaves({"a", "b"}, {<<1, 1>>, <<0, 1>>}), {"s", "c"}, OccTiny)
           IN {<<k, ks, o[1], o[2]>> : k \in {"s", "c"},
                 ks \in Nest(inner, ElemLeaves({"a", "b"}, OccTiny)), o \in OccTiny}
Depth2Set(z) == LET inner == GroupsOver(ElemLeaves({"a", "b"}, {<<1, 1>>, <<0, 1>>, <<1, Inf>>}),
                                  {"s", "c"}, OccSmall)
          IN {<<k, ks, o[1], o[2]>> : k \in {"s", "c"},
                ks \in Nest(inner, ElemLeaves({"a", "b"}, OccSmall)), o \in OccSmall}

(* all groups: 1-3 distinct element names in every order *)
Inj(S, n) == {t \in [1..n -> S] : \A i \in 1..n : \A j \in 1..n : i # j => t[i] # t[j]}
AllKids(names, occ) ==
  UNION {{[i \in 1..n |-> <<"e", t[i], f[i][1], f[i][2]>>] : t \in Inj(names, n), f \in [1..n -> occ]}
           : n \in 1..3}
AllGroups(names, occ) == {<<"a", ks, o[1], o[2]>> : ks \in AllKids(names, occ),
                                                      o \in {<<1, 1>>, <<0, 1>>}}
All10Set(z) == AllGroups({"a", "b", "c"}, {<<1, 1>>, <<0, 1>>})
All11Set(z) == AllGroups({"a", "b", "c"}, {<<1, 1>>, <<0, 1>>, <<0, 2>>, <<2, 2>>, <<1, Inf>>})
AllQSet(z)  == AllGroups({"a", "b", "c"}, {<<1, 1>>, <<0, 1>>, <<0, 2>>})

(* leaf variants: local elements, a substitution head, three wildcards *)
VarLeaves(z) == {<<k[1], k[2], o[1], o[2]>> :
                k \in {<<"e", "a">>, <<"e", "b">>, <<"h", "a">>,
                        <<"w", "any">>, <<"w", "other">>, <<"w", "tns">>},
                o \in {<<1, 1>>, <<0, 1>>, <<0, Inf>>}}
LeafVarSet(z) == GroupsOver(VarLeaves(z), {"s", "c"}, OccSmall)
(* ... plus the head f with a member in the foreign namespace: the groups that use it *)
FLeaves(z) == {<<"h", "f", o[1], o[2]>> : o \in {<<1, 1>>, <<0, 1>>, <<0, Inf>>}}
LeafVarFSet(z) == {g \in GroupsOver(VarLeaves(z) \cup FLeaves(z), {"s", "c"}, OccSmall) :
                      \E i \in DOMAIN g[2] : g[2][i][1] = "h" /\ g[2][i][2] = "f"}
(* XSD 1.1: two heads with a common member, next to a local element and a wildcard *)
MultiHeadSet(z) == LET lv == {<<k[1], k[2], o[1], o[2]>> :
                                k \in {<<"h", "p">>, <<"h", "q">>, <<"e", "b">>, <<"e", "r">>, <<"w", "tns">>},
                                o \in {<<1, 1>>, <<0, 1>>, <<0, Inf>>}}
                   IN {g \in GroupsOver(lv, {"s", "c"}, OccSmall) :
                         \E i \in DOMAIN g[2] : g[2][i][1] = "h"}
(* XSD 1.1: xs:all with members that must occur twice or more *)
All11QSet(z) == {<<"a", ks, o[1], o[2]>> :
                   ks \in UNION {{[i \in 1..n |-> <<"e", t[i], f[i][1], f[i][2]>>] :
                                    t \in Inj({"a", "b"}, n), f \in [1..n -> {<<1, 1>>, <<0, 2>>, <<2, 2>>, <<2, 3>>}]}
                                  : n \in 1..2},
                   o \in {<<1, 1>>, <<0, 1>>}}
(* a wildcard NESTED in an inner group next to an element declaration of the outer group (XSD 1.1: the     *)
(* element wins wherever it is declared in the content model) *)
NestWSet(z) == LET xs == ElemLeaves({"a", "b"}, {<<1, 1>>, <<0, Inf>>})
                   ws == {<<"w", c, o[1], o[2]>> : c \in {"any", "tns"}, o \in {<<1, 1>>, <<0, Inf>>}}
                   yb == <<"e", "b", 1, 1>>
                   inner == {<<k, ks, o[1], o[2]>> : k \in {"s", "c"},
                               ks \in {<<w>> : w \in ws} \cup {<<yb, w>> : w \in ws} \cup {<<w, yb>> : w \in ws},
                               o \in {<<1, 1>>, <<0, Inf>>}}
               IN {<<k, ks, 1, 1>> : k \in {"s", "c"},
                     ks \in {<<x, g>> : x \in xs, g \in inner} \cup {<<g, x>> : x \in xs, g \in inner}}
(* three particles: leaf, inner group, leaf (what lies BETWEEN two competing particles matters) *)
Mid3Set(z) == LET lv == ElemLeaves({"a", "b"}, {<<1, 1>>, <<0, 1>>, <<0, Inf>>})
                  inner == GroupsOver(ElemLeaves({"a", "b"}, {<<1, 1>>, <<0, 1>>}), {"s", "c"}, {<<1, 1>>, <<0, 1>>})
              IN {<<"s", <<x, g, y>>, o[1], o[2]>> : x \in lv, g \in inner, y \in lv, o \in {<<1, 1>>, <<1, Inf>>}}

(* a PROHIBITED group (maxOccurs = 0) as first particle: no component at all *)
ZeroSet(z) == LET g0 == {<<k, ks, 0, 0>> : k \in {"s", "c"},
                          ks \in Kids12(ElemLeaves({"b", "c"}, {<<1, 1>>, <<0, 1>>}))}
                  rest == Kids12(ElemLeaves({"a", "b"}, {<<1, 1>>, <<0, 1>>, <<0, Inf>>}))
              IN {<<k, <<g>> \o r, o[1], o[2]>> : k \in {"s", "c"}, g \in g0, r \in rest, o \in {<<1, 1>>, <<0, Inf>>}}

(* typed leaves for Element Declarations Consistent *)
TypedSet(z) == GroupsOver({<<"e", n, o[1], o[2], t>> : n \in {"a", "b"}, o \in {<<1, 1>>, <<0, 1>>},
                                                       t \in {"s", "i"}},
                          {"s", "c"}, {<<1, 1>>, <<1, Inf>>})

(* XSD 1.1: two wildcards (namespace lists and negations) and an element side by side: two wildcards   *)
(* compete exactly when their denotations meet - possibly only in a namespace neither of them names (z) *)
WildPairSet(z) == LET ws == {<<"w", c, o[1], o[2]>> : c \in {"oo", "ol", "tl", "other", "nO", "nT", "nOl"},
                                                      o \in {<<1, 1>>, <<0, 1>>}}
                  IN GroupsOver(ws \cup {<<"e", "a", 1, 1>>}, {"s", "c"}, {<<1, 1>>})

(* families are operators with a dummy argument so that TLC does not evaluate *)
(* every one of them eagerly at start-up                                      *)
Family(name) == CASE name = "Depth1"  -> Depth1Set(0)
                  [] name = "Depth2Q" -> Depth2QSet(0)
                  [] name = "Depth2"  -> Depth2Set(0)
                  [] name = "All10"   -> All10Set(0)
                  [] name = "All11"   -> All11Set(0)
                  [] name = "AllQ"    -> AllQSet(0)
                  [] name = "LeafVar" -> LeafVarSet(0)
                  [] name = "LeafVarF" -> LeafVarFSet(0)
                  [] name = "Mid3"    -> Mid3Set(0)
                  [] name = "All11Q"  -> All11QSet(0)
                  [] name = "NestW"   -> NestWSet(0)
                  [] name = "MultiHead" -> MultiHeadSet(0)
                  [] name = "WildPair" -> WildPairSet(0)
                  [] name = "Zero"    -> ZeroSet(0)
                  [] name = "Typed"   -> TypedSet(0)
                  [] name = "OCQ"     ->      \* bases of the open-content scope
                       GroupsOver(ElemLeaves({"a", "b"}, {<<1, 1>>, <<0, 1>>, <<0, Inf>>}), {"s", "c"},
                                  {<<1, 1>>, <<0, Inf>>})

------------------------------------------------------------------------------
(* The machine                                                                *)
VARIABLES model, word, cfgs, lang, attr
vars == <<model, word, cfgs, lang, attr>>

Init == /\ model \in ModelSet
        /\ word = <<>>
        /\ cfgs = {Conv(model, <<>>)}
        /\ lang = cfgs
        /\ attr = <<>>

Child(a) == /\ Len(word) < MaxLen
            /\ word' = Append(word, a)
            /\ cfgs' = Step(cfgs, a)
            /\ lang' = StepLang(lang, a)
            /\ attr' = Append(attr, Attrib(cfgs, a))
            /\ UNCHANGED model

Next == \E a \in Syms : Child(a)
Spec == Init /\ [][Next]_vars

(* determinism exploration: all reachable configuration sets, words forgotten *)
DetChild(a) == /\ StepLang(lang, a) # {}
               /\ lang' = StepLang(lang, a)
               /\ cfgs' = lang'
               /\ UNCHANGED <<model, word, attr>>
DetNext == \E a \in Syms : DetChild(a)
DetSpec == Init /\ [][DetNext]_vars

------------------------------------------------------------------------------
(* Properties of the specification itself (obligation A)                      *)
Agree == (HasAll(model) /\ Len(word) > 3) \/ Accepting(lang) = InL(Conv(model, <<>>), word)
PruneSubset == cfgs \subseteq lang
(* without an element/wildcard competition the 1.1 reading is the language *)
PruneOnlyMixed == Ver = "1.0" => cfgs = lang
(* DetSpec: a static "deterministic" verdict means no reachable UPA conflict; *)
(* the converse is checked per model on the emitted records                   *)
StaticSound == (~HasAll(model) /\ StaticDet(model)) => ~UPAConflict(lang)

------------------------------------------------------------------------------
(* Restriction (C14): language inclusion of a derived model in its base,      *)
(* decided on the product of the two configuration-set machines.  The         *)
(* candidates are produced from a base model by edit operators; each carries  *)
(* a label saying what was done.  Variables are reused: model = <<base,       *)
(* derived, label>>, cfgs = configurations of the derived model, lang =       *)
(* configurations of the base model, word = the children consumed so far.     *)
SetOcc(m, o)    == IF Len(m) >= 5 THEN <<m[1], m[2], o[1], o[2], m[5]>> ELSE <<m[1], m[2], o[1], o[2]>>
SetKids(m, ks)  == <<m[1], ks, m[3], m[4]>>
Tighter(o, p)   == o[1] >= p[1] /\ o[2] <= p[2] /\ o[1] <= o[2]       \* o within p
DropAt(ks, i)   == [j \in 1..(Len(ks) - 1) |-> IF j < i THEN ks[j] ELSE ks[j + 1]]
Rename(l)       == IF l[1] = "e" THEN SetKids(l, IF l[2] = "a" THEN "b" ELSE "a") ELSE l
EditOcc         == {<<1, 1>>, <<0, 1>>, <<0, Inf>>, <<1, Inf>>, <<2, 2>>, <<1, 2>>, <<0, 2>>, <<0, 0>>}
Edits(b) ==
  {<<b, b, "same">>}
  \cup {<<b, SetOcc(b, o), IF Tighter(o, <<b[3], b[4]>>) THEN "tighten" ELSE "widen">> :
           o \in EditOcc \ {<<b[3], b[4]>>}}
  \cup UNION {{<<b, SetKids(b, [b[2] EXCEPT ![i] = SetOcc(b[2][i], o)]),
                 IF Tighter(o, <<b[2][i][3], b[2][i][4]>>) THEN "tighten" ELSE "widen">> :
                  o \in EditOcc \ {<<b[2][i][3], b[2][i][4]>>}} : i \in DOMAIN b[2]}
  \cup {<<b, SetKids(b, DropAt(b[2], i)), "drop">> : i \in {j \in DOMAIN b[2] : Len(b[2]) > 1}}
  \cup {<<b, SetKids(b, Append(b[2], l)), "add">> : l \in {<<"e", "a", 0, 1>>, <<"e", "b", 1, 1>>, <<"e", "c", 0, Inf>>}}
  \cup {<<b, SetKids(b, <<l>> \o b[2]), "add">> : l \in {<<"e", "a", 0, 1>>, <<"e", "c", 0, Inf>>}}
  \cup {<<b, <<"s", <<b[2][i]>>, b[3], b[4]>>, "branch">> : i \in {j \in DOMAIN b[2] : b[1] = "c"}}
  \cup {<<b, <<IF b[1] = "s" THEN "c" ELSE "s", b[2], b[3], b[4]>>, "kind">>}
  \cup {<<b, SetKids(b, [b[2] EXCEPT ![i] = Rename(b[2][i])]), "rename">> :
           i \in {j \in DOMAIN b[2] : IsLeaf(b[2][j])}}
  \cup {<<b, SetKids(b, <<b[2][2], b[2][1]>>), "swap">> : i \in {j \in {1} : Len(b[2]) = 2}}

(* Restrictions of a single element / wildcard particle (family RestrW): the namespace    *)
(* constraint of a wildcard is exchanged, the particle is replaced by an element or by a   *)
(* repeated group around it (Particle Derivation OK: NSSubset, NSCompat, NSRecurseCheck-   *)
(* Cardinality, RecurseAsIfGroup).  The edited particle is the LAST child of the base.      *)
WildCons == {"any", "other", "tns", "local", "tl", "oo", "ol"}
WLeafOcc == {<<0, 1>>, <<1, 2>>, <<0, Inf>>}
WLeaves  == {<<"w", c, o[1], o[2]>> : c \in WildCons, o \in WLeafOcc}
WElems   == {<<"e", "a", o[1], o[2]>> : o \in {<<0, 2>>, <<1, 2>>, <<0, Inf>>}}
WEdits(b) ==
  LET i == Len(b[2])
      l == b[2][i]
      With(x) == SetKids(b, [b[2] EXCEPT ![i] = x])
  IN {<<b, b, "same">>}
     \cup {<<b, With(<<"w", c, l[3], l[4]>>), "wild">> : c \in {x \in WildCons : l[1] = "w" /\ x # l[2]}}
     \cup {<<b, With(SetOcc(l, o)), IF Tighter(o, <<l[3], l[4]>>) THEN "tighten" ELSE "widen">> :
              o \in EditOcc \ {<<l[3], l[4]>>}}
     \cup {<<b, With(<<"e", n, l[3], l[4]>>), "elem">> : n \in {x \in {"a"} : l[1] = "w"}}
     \cup {<<b, With(<<k, inner, o[1], o[2]>>), "wrap">> :
              k \in {"c", "s"}, o \in {<<1, 1>>, <<2, 2>>, <<0, 2>>, <<1, Inf>>},
              inner \in {<<SetOcc(l, <<1, 2>>)>>, <<SetOcc(l, <<1, 1>>)>>, <<<<"e", "a", 1, 2>>>>,
                         <<<<"e", "a", 1, 2>>, <<"e", "c", 1, 1>>>>}}

RBases(name) == CASE name = "RestrQ" -> GroupsOver(ElemLeaves({"a", "b"}, OccSmall), {"s", "c"}, OccSmall)
                  [] name = "Restr1" -> Depth1Set(0)
                  [] name = "Restr2" -> Depth2QSet(0)
                  [] name = "RestrA" ->      \* xs:all groups of 2-3 distinct elements
                       LET O2 == {<<1, 1>>, <<0, 1>>}
                           la == ElemLeaves({"a"}, O2)  lb == ElemLeaves({"b"}, O2)  lc == ElemLeaves({"c"}, O2)
                       IN {<<"a", ks, o[1], o[2]>> :
                             ks \in {<<x, y>> : x \in la, y \in lb} \cup {<<x, y, z>> : x \in la, y \in lb, z \in lc},
                             o \in O2}
                  [] name = "RestrW" ->
                       {<<k, ks, 1, 1>> : k \in {"s", "c"},
                          ks \in {<<l>> : l \in WLeaves \cup WElems} \cup {<<<<"e", "b", 1, 1>>, l>> : l \in WLeaves}}
(* a shard: the bases of one group kind and occurrence range (TLC evaluates   *)
(* the set of initial states single-threaded, so the harness runs shards in   *)
(* parallel)                                                                  *)
EditsOf(name, b) == IF name = "RestrW" THEN WEdits(b) ELSE Edits(b)
RFamilyShard(name, k, o) == UNION {EditsOf(name, b) : b \in {x \in RBases(name) : x[1] = k /\ x[3] = o[1] /\ x[4] = o[2]}}
RFamily(name) == UNION {EditsOf(name, b) : b \in RBases(name)}

RInit == /\ model \in ModelSet           \* here: a set of <<base, derived, label>>
         /\ word = <<>>
         /\ cfgs = {Conv(model[2], <<>>)}
         /\ lang = {Conv(model[1], <<>>)}
         /\ attr = <<>>
RChild(a) == /\ StepLang(cfgs, a) # {}
             /\ cfgs' = StepLang(cfgs, a)
             /\ lang' = StepLang(lang, a)
             /\ word' = Append(word, a)
             /\ UNCHANGED <<model, attr>>
RNext == \E a \in Syms : RChild(a)
RSpec == RInit /\ [][RNext]_vars
RView == <<model, cfgs, lang>>
NotIncluded == Accepting(cfgs) /\ ~Accepting(lang)       \* word is in L(derived) \ L(base)
(* edits labelled as narrowing really narrow *)
NarrowingNarrows == model[3] \in {"same", "tighten", "branch"} => ~NotIncluded
EmitR == IF word = <<>> \/ NotIncluded
         THEN PrintT(ToJson([b |-> model[1], d |-> model[2], label |-> model[3], w |-> word,
                             bad |-> NotIncluded]))
         ELSE TRUE

------------------------------------------------------------------------------
(* XSD 1.1 open content (Element Sequence Locally Valid (Complex Content),      *)
(* clauses 1.2 and 1.3).  A type with content model P and open content <mode, W>  *)
(* accepts S iff S splits into S1 (valid for P) and S2 (every element admitted by  *)
(* W) - S2 after S1 in suffix mode, interleaved with it in interleave mode - such   *)
(* that an element goes to the open content ONLY IF it cannot continue a path in    *)
(* P (clauses 1.2.3 / 1.3.3).  That precedence makes the greedy machine below the   *)
(* operational reading; OCValid is the clause text (existential split).            *)
(* Variables are reused: model = <<P, mode, W>>, cfgs = configurations of P,         *)
(* lang = phase ({} in the model, {"suffix"} after the first open-content element    *)
(* in suffix mode, {"dead"} when no reading is left), attr = attribution with        *)
(* <<"oc">> for elements that went to the open content.                              *)
OCInit == /\ model \in ModelSet
          /\ word = <<>> /\ cfgs = {Conv(model[1], <<>>)} /\ lang = {} /\ attr = <<>>
OCChild(a) ==
  /\ Len(word) < MaxLen
  /\ word' = Append(word, a)
  /\ UNCHANGED model
  /\ IF lang = {} /\ StepLang(cfgs, a) # {}
       THEN cfgs' = StepLang(cfgs, a) /\ lang' = {} /\ attr' = Append(attr, Attrib(cfgs, a))
     ELSE IF lang # {"dead"} /\ a \in WildDen(model[3]) /\ (model[2] = "interleave" \/ lang = {"suffix"} \/ Accepting(cfgs))
       THEN /\ cfgs' = cfgs /\ attr' = Append(attr, {<<"oc">>})
            /\ lang' = IF model[2] = "suffix" THEN {"suffix"} ELSE lang
     ELSE cfgs' = {} /\ lang' = {"dead"} /\ attr' = Append(attr, {})
OCNext == \E a \in Syms : OCChild(a)
OCSpec == OCInit /\ [][OCNext]_vars
OCAccepting == lang # {"dead"} /\ Accepting(cfgs)

(* the clause text *)
RECURSIVE RunLang(_, _)
RunLang(C, w) == IF w = <<>> THEN C ELSE RunLang(StepLang(C, Head(w)), Tail(w))
HasPath(m, w) == RunLang({Conv(m, <<>>)}, w) # {}
Restrict(w, I) == LET RECURSIVE B(_, _)
                      B(j, acc) == IF j > Len(w) THEN acc ELSE B(j + 1, IF j \in I THEN acc ELSE Append(acc, w[j]))
                  IN B(1, <<>>)
OCValid(m, mode, wc, w) ==
  IF mode = "suffix"
    THEN \E i \in 0..Len(w) :
           LET s1 == SubSeq(w, 1, i)  s2 == SubSeq(w, i + 1, Len(w)) IN
             /\ InL(Conv(m, <<>>), s1)
             /\ (s2 # <<>> => ~HasPath(m, Append(s1, s2[1])))
             /\ \A j \in DOMAIN s2 : s2[j] \in WildDen(wc)
    ELSE \E I \in SUBSET (DOMAIN w) :
           /\ InL(Conv(m, <<>>), Restrict(w, I))
           /\ \A j \in I : /\ w[j] \in WildDen(wc)
                           /\ ~HasPath(m, Append(Restrict(SubSeq(w, 1, j - 1), I), w[j]))
OCAgree == OCAccepting = OCValid(model[1], model[2], model[3], word)
(* open content only adds: whatever P accepts stays accepted *)
OCExtends == InL(Conv(model[1], <<>>), word) => OCAccepting
OCFamily(name) == {<<m, mode, wc>> : m \in Family(name), mode \in {"interleave", "suffix"},
                                     wc \in {"any", "other", "tns"}}
EmitOC == PrintT(ToJson([m |-> model[1], mode |-> model[2], wc |-> model[3], w |-> word,
                         acc |-> OCAccepting, plain |-> InL(Conv(model[1], <<>>), word), attr |-> attr]))

------------------------------------------------------------------------------
(* Emission (obligation B)                                                    *)
EmitWord == PrintT(ToJson([m |-> model, w |-> word, acc |-> Accepting(cfgs),
                           accLang |-> Accepting(lang), viable |-> cfgs # {},
                           attr |-> attr]))
EmitDet == IF word = <<>> /\ attr = <<>> /\ cfgs = {Conv(model, <<>>)}
           THEN PrintT(ToJson([m |-> model, init |-> TRUE, edc |-> EDC(model), upa |-> UPAConflict(lang),
                               mixed |-> MixedConflict(lang), counter |-> CounterConflict(lang),
                               static |-> IF HasAll(model) THEN "n/a"
                                          ELSE IF StaticDet(model) THEN "det" ELSE "nondet"]))
           ELSE IF UPAConflict(lang) \/ MixedConflict(lang) \/ CounterConflict(lang)
           THEN PrintT(ToJson([m |-> model, init |-> FALSE, upa |-> UPAConflict(lang),
                               mixed |-> MixedConflict(lang), counter |-> CounterConflict(lang),
                               static |-> "-"]))
           ELSE TRUE
=============================================================================
