------------------------------ MODULE Attributes ------------------------------
(* The enumeration machine over spec/AttrDefs.tla (definitions and laws): every    *)
(* (declaration pair, wildcard, attribute set) with the verdict and the decoded      *)
(* dictionaries.                                                                   *)
EXTENDS AttrDefs

(* decoded dictionary as a set of <<name, value>> (meaningful for valid elements) *)
DecSeq(f) == {<<n, f[n]>> : n \in DOMAIN f}
VARIABLES d0, dT, w, inst
Init == d0 \in Decl /\ dT \in Decl /\ w \in Wild /\ inst \in Inst
Next == FALSE /\ UNCHANGED <<d0, dT, w, inst>>
Spec == Init /\ [][Next]_<<d0, dT, w, inst>>
Emit == PrintT(ToJson([d0 |-> d0, dT |-> dT, w |-> w, inst |-> inst,
                       valid |-> ValidAttrs(d0, dT, w, inst),
                       vsimple |-> ValidUnderSimpleType(inst), vany |-> ValidUnderAnyType(inst),
                       dec1 |-> DecSeq(Decoded(d0, dT, w, inst, TRUE)),
                       dec0 |-> DecSeq(Decoded(d0, dT, w, inst, FALSE)),
                       dec1f |-> DecSeq(DecodedFill(d0, dT, w, inst, TRUE)),
                       dec0f |-> DecSeq(DecodedFill(d0, dT, w, inst, FALSE))]))
=============================================================================
