-------------------------------- MODULE Access --------------------------------
(* Resource access control (C12) and defused parsing (C13).                      *)
(*                                                                             *)
(* C12.  A location belongs to a CLASS: "inside" the sandbox directory,          *)
(* "sibling" (a directory whose name only shares the sandbox name as a prefix),  *)
(* "outside" (elsewhere on the local file system), "remote" (http).  The allow   *)
(* mode decides which classes may be opened.  A schema load is a sequence of     *)
(* Fetch steps: the main source, then the locations it references (include,      *)
(* import, redefine, override, instance hint); each fetch either opens the       *)
(* location (it then contributes declarations) or is blocked.                    *)
(*                                                                             *)
(* C13.  The prolog of a document is a sequence of DTD items followed by the     *)
(* first start tag.  When defusing applies, the first forbidden item refuses the *)
(* document before anything is expanded or fetched.                              *)
EXTENDS XsdBase, TLC, Json

------------------------------------------------------------------------------
Classes == {"inside", "sibling", "outside", "remote"}
Allows  == {"all", "local", "remote", "sandbox", "none"}
Permitted(allow, c) == CASE allow = "all"     -> TRUE
                         [] allow = "none"    -> FALSE
                         [] allow = "local"   -> c # "remote"
                         [] allow = "remote"  -> c = "remote"
                         [] allow = "sandbox" -> c = "inside"
(* "hint": an xsi:schemaLocation hint on an element of the INSTANCE (a namespace the   *)
(* schema has not loaded), followed during validation; "mapper": an include whose      *)
(* location is rewritten by the user's URI mapper - the class is that of the MAPPED    *)
(* location, the one that is finally opened.                                           *)
(* "locations": a location given for a namespace with the schema's `locations` argument,   *)
(* loaded when the namespace is needed (at build time, or later when validation meets an      *)
(* element of that namespace under a wildcard).                                               *)
Mechanisms == {"include", "import", "redefine", "override", "hint", "mapper", "locations"}
(* "climbabs" / "climburl" / "climbenc": an ABSOLUTE path / file URL / file URL with percent-encoded dots that    *)
(* starts inside the sandbox directory and leaves it (or stays in it) through ".." segments: the class of a        *)
(* location is that of the file it finally names, whatever the spelling                                          *)
Spellings  == {"relative", "dotted", "absolute", "fileurl", "encoded", "climbabs", "climburl", "climbenc"}

VARIABLES allow, main, refs, opened, blocked, loaded, step
avars == <<allow, main, refs, opened, blocked, loaded, step>>

(* a load: the main document (always inside the sandbox directory here, or remote; "textremote": the main     *)
(* schema is supplied as TEXT together with a remote base URL - nothing is fetched for it, but its relative   *)
(* references are remote)                                                                                    *)
(* references one target: [mech, class, spelling]                                  *)
AInit == /\ allow \in Allows
         /\ main \in {"inside", "remote", "textremote"}
         /\ refs \in [mech : Mechanisms, class : Classes, spelling : Spellings]
         /\ opened = {} /\ blocked = {} /\ loaded = {} /\ step = "main"
FetchMain == /\ step = "main"
             /\ IF main = "textremote"
                  THEN loaded' = {"main"} /\ step' = "ref" /\ UNCHANGED <<opened, blocked>>
                ELSE IF Permitted(allow, main)
                  THEN opened' = opened \cup {<<"main", main>>} /\ loaded' = {"main"} /\ step' = "ref"
                       /\ UNCHANGED blocked
                  ELSE blocked' = blocked \cup {<<"main", main>>} /\ step' = "done"
                       /\ UNCHANGED <<opened, loaded>>
             /\ UNCHANGED <<allow, main, refs>>
FetchRef == /\ step = "ref"
            /\ IF Permitted(allow, refs.class) /\ ~(allow = "sandbox" /\ main = "textremote")
                 THEN opened' = opened \cup {<<"ref", refs.class>>} /\ loaded' = loaded \cup {"ref"}
                      /\ UNCHANGED blocked
                 ELSE blocked' = blocked \cup {<<"ref", refs.class>>} /\ UNCHANGED <<opened, loaded>>
            /\ step' = "done"
            /\ UNCHANGED <<allow, main, refs>>
ANext == FetchMain \/ FetchRef
ASpec == AInit /\ [][ANext]_avars

(* a sandbox is a LOCAL directory: with a remote base URL it admits nothing (remote locations are never *)
(* permitted in sandbox mode, local ones are outside the base)                                        *)
SandboxRemoteBaseOpensNothing == (allow = "sandbox" /\ main = "textremote") => opened = {}
OnlyPermittedOpened == \A o \in opened : Permitted(allow, o[2])
BlockedNotLoaded == \A b \in blocked : b[1] \notin loaded
NothingWithNone == allow = "none" => opened = {}
AEmit == IF step = "done"
         THEN PrintT(ToJson([allow |-> allow, main |-> main, ref |-> refs,
                             opened |-> opened, loaded |-> loaded]))
         ELSE TRUE
=============================================================================
