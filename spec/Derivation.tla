------------------------------ MODULE Derivation ------------------------------
(* Dynamic typing (xsi:type), substitution groups and xsi:nil:                 *)
(* which element information items are valid given the type hierarchy, the     *)
(* block / abstract flags and the schema's blockDefault.                       *)
(*                                                                           *)
(* Types: T0 (the declared type), T1 derived from T0 by method m1, T2 derived  *)
(* from T1 (Shape = "chain") or from T0 (Shape = "fork") by method m2.         *)
(* Content: a type's content is a sequence of <<name, required>>; extension    *)
(* appends a new required element, restriction drops the first optional one.   *)
(* An instance carries one of the content variants "c0", "c1", "c2" (the       *)
(* minimal content of that type) or "empty".                                   *)
(*                                                                           *)
(* Written from the clause text of XSD Part 1: Element Locally Valid (Element) *)
(* 3 (nil), 4 (xsi:type), Type Derivation OK (Complex), Substitution Group OK  *)
(* (Transitive), Element Locally Valid (Type) 2 (abstract).                    *)
EXTENDS XsdBase, TLC, Json

CONSTANTS Small     \* TRUE: reduced universe of block sets (quick tier)
Methods == {"ext", "res"}
BlockSets  == IF Small THEN {{}, {"res"}} ELSE {{}, {"ext"}, {"res"}}     \* on the declared type
DfltSets   == IF Small THEN {{}, {"ext"}, {"sub"}} ELSE {{}, {"ext"}, {"res"}, {"sub"}}
EBlockSets == IF Small THEN {{}, {"ext"}, {"sub"}}
              ELSE {{}, {"ext"}, {"res"}, {"sub"}, {"ext", "res"}}         \* on elements
TypeNames == {"T0", "T1", "T2"}

(* a schema configuration *)
Schemas == [shape : {"chain", "fork"}, m1 : Methods, m2 : Methods,
            abs : {"none", "T0", "T1", "T2"},          \* the abstract type, if any
            tblock : BlockSets,                         \* block of the declared type T0
            dflt : DfltSets,                            \* blockDefault of the schema
            eblock : EBlockSets, eabs : BOOLEAN, nillable : BOOLEAN]

Base(s, t)   == CASE t = "T1" -> "T0" [] t = "T2" -> IF s.shape = "chain" THEN "T1" ELSE "T0"
Method(s, t) == IF t = "T1" THEN s.m1 ELSE s.m2

(* effective block sets: an absent block attribute takes blockDefault; the     *)
(* renderer writes block explicitly only when the set is non-empty             *)
TBlock(s)  == IF s.tblock = {} THEN s.dflt \cap Methods ELSE s.tblock
EBlock(s)  == IF s.eblock = {} THEN s.dflt ELSE s.eblock

(* the methods used on the way from t up to T0 (t derives from T0 always) *)
RECURSIVE Steps(_, _)
Steps(s, t) == IF t = "T0" THEN {} ELSE {Method(s, t)} \cup Steps(s, Base(s, t))

(* Type Derivation OK: no step of the chain is in the blocking set *)
DerivedOK(s, t, blocked) == Steps(s, t) \cap blocked = {}

------------------------------------------------------------------------------
(* content *)
RECURSIVE Content(_, _)
Content(s, t) ==
  IF t = "T0" THEN <<<<"a", TRUE>>, <<"o", FALSE>>>>
  ELSE LET b == Content(s, Base(s, t)) IN
       IF Method(s, t) = "ext" THEN Append(b, <<IF t = "T1" THEN "x1" ELSE "x2", TRUE>>)
       ELSE LET opt == {i \in DOMAIN b : ~b[i][2]} IN
            IF opt = {} THEN b
            ELSE LET k == CHOOSE i \in opt : \A j \in opt : i <= j
                 IN [i \in 1..(Len(b) - 1) |-> IF i < k THEN b[i] ELSE b[i + 1]]
RECURSIVE Required(_)
Required(c) == IF c = <<>> THEN <<>>
               ELSE IF Head(c)[2] THEN <<Head(c)[1]>> \o Required(Tail(c)) ELSE Required(Tail(c))
Variant(s, v) == CASE v = "empty" -> <<>>
                   [] v = "c0" -> Required(Content(s, "T0"))
                   [] v = "c1" -> Required(Content(s, "T1"))
                   [] v = "c2" -> Required(Content(s, "T2"))
(* w is valid for content c: the required names, in order, optionally with optional ones *)
ContentOK(c, w) == \E S \in SUBSET DOMAIN c :
                      /\ \A i \in DOMAIN c : c[i][2] => i \in S
                      /\ LET RECURSIVE Pick(_)
                             Pick(i) == IF i > Len(c) THEN <<>>
                                        ELSE IF i \in S THEN <<c[i][1]>> \o Pick(i + 1) ELSE Pick(i + 1)
                         IN w = Pick(1)

------------------------------------------------------------------------------
(* instances of the element E (declared type T0) *)
Instances == [xt : {"none", "T0", "T1", "T2", "unknown", "string"},
              nil : {"absent", "true", "false"},
              var : {"empty", "c0", "c1", "c2"}]

Governing(i) == IF i.xt = "none" THEN "T0" ELSE i.xt
ElemValid(s, i) ==
  /\ ~s.eabs                                                   \* abstract declarations validate nothing
  /\ i.xt \in {"none"} \cup TypeNames                          \* xsi:type resolves to a derived type
  /\ LET t == Governing(i) IN
       /\ DerivedOK(s, t, (EBlock(s) \cap Methods) \cup TBlock(s))
       /\ s.abs # t                                            \* the governing type is not abstract
       /\ IF i.nil = "true"
            THEN s.nillable /\ i.var = "empty"
            ELSE (i.nil = "absent" \/ s.nillable) /\ ContentOK(Content(s, t), Variant(s, i.var))

------------------------------------------------------------------------------
(* substitution groups: head H (type T0, block eblock, abstract eabs), member  *)
(* M1 affiliated to H with type mt1, member M2 affiliated to M1 with type mt2; *)
(* M1 may itself carry block="substitution" (m1sub) and be abstract (m1abs).   *)
SubSchemas == [shape : {"chain", "fork"}, m1 : Methods, m2 : Methods,
               tblock : BlockSets, dflt : DfltSets,
               eblock : EBlockSets, eabs : BOOLEAN,
               mt1 : {"T0", "T1"}, mt2 : {"T0", "T1", "T2"}, m1sub : BOOLEAN, m1abs : BOOLEAN]
AsSchema(q) == [shape |-> q.shape, m1 |-> q.m1, m2 |-> q.m2, abs |-> "none", tblock |-> q.tblock,
                dflt |-> q.dflt, eblock |-> q.eblock, eabs |-> q.eabs, nillable |-> FALSE]
(* a member's type must derive from the type of the element it is affiliated to (schema constraint) *)
RECURSIVE Ancestors(_, _)
Ancestors(s, t) == IF t = "T0" THEN {"T0"} ELSE {t} \cup Ancestors(s, Base(s, t))
SubWellFormed(q) == q.mt1 \in Ancestors(AsSchema(q), q.mt2)
(* which child may stand where ref="H" is expected *)
SubstValid(q, child) ==
  LET s == AsSchema(q)
      blocking == (EBlock(s) \cap Methods) \cup TBlock(s)
  IN CASE child = "H"  -> ~q.eabs
       [] child = "M1" -> /\ "sub" \notin EBlock(s) /\ ~q.m1abs
                          /\ DerivedOK(s, q.mt1, blocking)
       [] child = "M2" -> /\ "sub" \notin EBlock(s)
                          /\ DerivedOK(s, q.mt2, blocking)
(* PARTIAL validation (C20): the child selected by an explicit path is validated against ITS OWN   *)
(* global declaration - substitution blocks say nothing about it, only its own abstractness does *)
SubstPartialValid(q, child) == CASE child = "H" -> ~q.eabs [] child = "M1" -> ~q.m1abs [] child = "M2" -> TRUE
ASSUME \A q \in {x \in SubSchemas : SubWellFormed(x)} : \A c \in {"H", "M1", "M2"} :
         SubstValid(q, c) => SubstPartialValid(q, c)

------------------------------------------------------------------------------
(* Laws (obligation A) *)
Monotone ==   \* enlarging a block set never makes more instances valid
  \A s \in Schemas : \A i \in Instances :
     (s.eblock = {} /\ s.dflt = {} /\ s.tblock = {}) \/ ~ElemValid(s, i)
        \/ ElemValid([s EXCEPT !.eblock = {}, !.dflt = {}, !.tblock = {}], i)
NoTypeIsItself == \A s \in Schemas : DerivedOK(s, "T0", Methods)
ContentDistinguishes ==  \* the variants separate extension from its base
  \A s \in Schemas : s.m1 = "ext" =>
     /\ ~ContentOK(Content(s, "T0"), Variant(s, "c1"))
     /\ ~ContentOK(Content(s, "T1"), Variant(s, "c0"))
RestrictionNarrows ==
  \A s \in Schemas : \A t \in {"T1", "T2"} : \A v \in {"empty", "c0", "c1", "c2"} :
     Method(s, t) = "res" /\ ContentOK(Content(s, t), Variant(s, v))
        => ContentOK(Content(s, Base(s, t)), Variant(s, v))

ASSUME Monotone
ASSUME NoTypeIsItself
ASSUME ContentDistinguishes
ASSUME RestrictionNarrows

------------------------------------------------------------------------------
(* Simple-typed elements: xsi:type among simple types, fixed values (value    *)
(* space), nil.  Declared type xs:integer; candidate types: xs:int and the user *)
(* type "small" (integer <= 10) are restrictions of it, xs:decimal is its base,  *)
(* xs:string is unrelated.  Text classes: "1", "01" (the same value), "2", "11", *)
(* "x" (no number), "" (empty).                                                 *)
SimpleCfgs == [eblock : {{}, {"res"}}, fixed : {"none", "one"}, nillable : BOOLEAN]
SimpleInsts == [xt : {"none", "int", "small", "decimal", "string", "unknown"},
                nil : {"absent", "true"}, text : {"1", "01", "2", "11", "x", ""}]
TextOK(t, x) == CASE t \in {"integer", "int"} -> x \in {"1", "01", "2", "11"}
                  [] t = "small" -> x \in {"1", "01", "2"}
                  [] OTHER -> FALSE
SimpleValid(c, i) ==
  LET t == IF i.xt = "none" THEN "integer" ELSE i.xt IN
    /\ t \in {"integer", "int", "small"}                     \* validly derived from the declared type
    /\ (i.xt = "none" \/ "res" \notin c.eblock)              \* both are derived by restriction
    /\ IF i.nil = "true"
         THEN c.nillable /\ i.text = "" /\ c.fixed = "none"
         ELSE IF c.fixed = "one" /\ i.text = "" THEN TRUE     \* an empty element takes the fixed value
         ELSE TextOK(t, i.text) /\ (c.fixed = "one" => i.text \in {"1", "01"})

(* Fixed values and the whiteSpace facet: the text is normalised by the type's    *)
(* whiteSpace facet BEFORE it is compared with the fixed value: collapse          *)
(* (integer, token), replace (normalizedString), preserve (string).  The fixed    *)
(* value is "a b" ("1" for integer).  Text classes: "same"; "padded" (leading and  *)
(* trailing blank); "tabbed" (the inner blank is a TAB); "inner2" (two inner       *)
(* blanks); "other"; "" (an empty element takes the fixed value).  `wrap`: the     *)
(* element has a complex type with simple content over the type.                  *)
FixedCfgs == [dt : {"integer", "token", "normalizedString", "string"}, wrap : BOOLEAN]
FixedInsts == {"same", "padded", "tabbed", "inner2", "other", ""}
WsOf(dt) == CASE dt \in {"integer", "token"} -> "collapse"
              [] dt = "normalizedString" -> "replace"
              [] dt = "string" -> "preserve"
FixedValid(c, x) == \/ x \in {"same", ""}
                    \/ (x = "padded" /\ WsOf(c.dt) = "collapse")
                    \/ (x = "tabbed" /\ WsOf(c.dt) \in {"collapse", "replace"})
                    \/ (x = "inner2" /\ WsOf(c.dt) = "collapse")
(* a stronger normalisation accepts whatever a weaker one accepts *)
ASSUME \A w \in BOOLEAN : \A x \in FixedInsts :
         /\ FixedValid([dt |-> "string", wrap |-> w], x) => FixedValid([dt |-> "normalizedString", wrap |-> w], x)
         /\ FixedValid([dt |-> "normalizedString", wrap |-> w], x) => FixedValid([dt |-> "token", wrap |-> w], x)

(* XSD 1.1 type alternatives: the first alternative whose test holds selects the *)
(* governing type.  Declared type T (content: nothing); TA, TB, TC extend it    *)
(* with one required child x, y, z.  alts is a sequence of <<test, type>>.  The *)
(* tests see the element's OWN attributes plus the INHERITED ones (attribute j  *)
(* is declared inheritable on the parent) that an own attribute of the same     *)
(* name does not override (XSD 1.1 Part 1, 3.12.4 / 3.3.5.6):                    *)
(*   "a" / "b"   @k = 'a' / 'b'        (own attribute k)                         *)
(*   "ja" / "jb" @j = 'a' / 'b'        (own j, else the parent's j)             *)
(*   "nj"        not(@j)                                                        *)
(*   "default"   no test                                                        *)
AltLists == {<<<<"a", "TA">>, <<"b", "TB">>, <<"default", "TC">>>>,
             <<<<"b", "TB">>, <<"a", "TA">>, <<"default", "TC">>>>,
             <<<<"a", "TA">>, <<"a", "TB">>, <<"default", "TC">>>>,
             <<<<"a", "TA">>, <<"b", "TB">>>>,
             <<<<"b", "TA">>, <<"default", "TB">>>>,
             <<<<"ja", "TA">>, <<"b", "TB">>, <<"default", "TC">>>>,
             <<<<"jb", "TA">>, <<"a", "TB">>>>,
             <<<<"a", "TA">>, <<"ja", "TB">>, <<"jb", "TC">>>>,
             <<<<"nj", "TA">>, <<"a", "TB">>>>,
             <<<<"a", "TA">>, <<"nj", "TB">>, <<"default", "TC">>>>,
             <<<<"ja", "TA">>, <<"jb", "TB">>, <<"nj", "TC">>>>}
AltInsts == [k : {"absent", "a", "b", "z"}, j : {"absent", "a", "b"}, oj : {"absent", "a", "b"},
             child : {"none", "x", "y", "z"}]
EffJ(i) == IF i.oj # "absent" THEN i.oj ELSE i.j
Holds(test, i) == CASE test = "default" -> TRUE
                    [] test \in {"a", "b"} -> i.k = test
                    [] test = "ja" -> EffJ(i) = "a"
                    [] test = "jb" -> EffJ(i) = "b"
                    [] test = "nj" -> EffJ(i) = "absent"
RECURSIVE Select(_, _)
Select(alts, i) == IF alts = <<>> THEN "T"
                   ELSE IF Holds(Head(alts)[1], i) THEN Head(alts)[2]
                   ELSE Select(Tail(alts), i)
ChildOf(t) == CASE t = "T" -> "none" [] t = "TA" -> "x" [] t = "TB" -> "y" [] t = "TC" -> "z"
AltValid(alts, i) == i.child = ChildOf(Select(alts, i))
ASSUME \A al \in AltLists : \A i \in AltInsts : Select(al, i) \in {"T", "TA", "TB", "TC"}
(* exactly one child name is valid for every instance, whatever the list *)
ASSUME \A al \in AltLists : \A i \in AltInsts :
         Cardinality({c \in {"none", "x", "y", "z"} : AltValid(al, [i EXCEPT !.child = c])}) = 1

------------------------------------------------------------------------------
(* enumeration as a (stateless) state space: one initial state per case       *)
CONSTANTS Mode      \* "xsitype" | "subst" | "simple" | "alt" | "fixedws"
VARIABLES cfg, inst
Init == CASE Mode = "xsitype" -> cfg \in Schemas /\ inst \in Instances
          [] Mode = "subst"   -> cfg \in {q \in SubSchemas : SubWellFormed(q)} /\ inst \in {"H", "M1", "M2"}
          [] Mode = "simple"  -> cfg \in SimpleCfgs /\ inst \in SimpleInsts
          [] Mode = "alt"     -> cfg \in AltLists /\ inst \in AltInsts
          [] Mode = "fixedws" -> cfg \in FixedCfgs /\ inst \in FixedInsts
Next == FALSE /\ UNCHANGED <<cfg, inst>>
Spec == Init /\ [][Next]_<<cfg, inst>>
TypesOf(s) == [T0 |-> Content(s, "T0"), T1 |-> Content(s, "T1"), T2 |-> Content(s, "T2")]
Emit == CASE Mode = "xsitype" ->
               PrintT(ToJson([cfg |-> cfg, inst |-> inst, types |-> TypesOf(cfg),
                              word |-> Variant(cfg, inst.var), valid |-> ElemValid(cfg, inst)]))
          [] Mode = "subst" ->
               PrintT(ToJson([cfg |-> cfg, inst |-> inst, types |-> TypesOf(AsSchema(cfg)),
                              valid |-> SubstValid(cfg, inst), pvalid |-> SubstPartialValid(cfg, inst)]))
          [] Mode = "simple" -> PrintT(ToJson([cfg |-> cfg, inst |-> inst, valid |-> SimpleValid(cfg, inst)]))
          [] Mode = "alt" -> PrintT(ToJson([cfg |-> cfg, inst |-> inst, sel |-> Select(cfg, inst),
                                            valid |-> AltValid(cfg, inst)]))
          [] Mode = "fixedws" -> PrintT(ToJson([cfg |-> cfg, inst |-> inst, valid |-> FixedValid(cfg, inst)]))
=============================================================================
