SPECIFICATION Spec
INVARIANT BeginOnce
INVARIANT MarkerWhileBuilding
INVARIANT StoreDisjoint
INVARIANT Confluent
INVARIANT DepsFirst
PROPERTY Finishes
CONSTRAINT EmitOrder
CHECK_DEADLOCK FALSE
