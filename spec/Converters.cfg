SPECIFICATION Spec
INVARIANT GeneratedAreValid
CONSTRAINT Emit
CHECK_DEADLOCK FALSE
