SPECIFICATION DetSpec
CONSTRAINT EmitDet
CHECK_DEADLOCK FALSE
