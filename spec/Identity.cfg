SPECIFICATION Spec
INVARIANT StreamingIsDeclarative
PROPERTY ErrorsMonotone
CONSTRAINT Emit
CHECK_DEADLOCK FALSE
