------------------------------ MODULE Validator ------------------------------
(* Document-level validation: where errors are located (C19) and which          *)
(* declaration governs which element (C20).                                     *)
(*                                                                            *)
(* The fixed schema of this module (rendered by the harness):                   *)
(*   lib   := item+, any{0,1} of another namespace, LAX: an undeclared wrapper  *)
(*            x:wrap is admitted without a declaration, but the element x:num    *)
(*            inside it has a global declaration (xs:int) and is assessed        *)
(*   item  := @id:int (required) @flag:boolean?  title:string, qty:int,         *)
(*            note:string?, sub?, memo? (mixed content, FIXED value "draft";    *)
(*            present in the items that carry a flag), any{0,2} of another      *)
(*            namespace, STRICT; @ref:QName? (an item that has a note refers to  *)
(*            "x:known": the prefix must be bound where the value is written)   *)
(*            (x:known has a global declaration, x:unk has none; an item that   *)
(*            has a note also carries one x:known)                              *)
(*            @uc: union(int, date) restricted by a pattern ? (items that have a   *)
(*            sub), @up: the plain union(int, date) ? (items that carry a flag; its *)
(*            value does not match the pattern of uc)                              *)
(*   sub   := qty:decimal+            (same local name, other declaration)      *)
(* A document is a flat list of nodes [path, name, decl, attrs, text] in        *)
(* document order; path = child indexes from the root; decl names the           *)
(* declaration that governs the node ("lib", "item", "title", "item/qty",       *)
(* "note", "sub", "sub/qty", "none" for undeclared).                            *)
(*                                                                            *)
(* A case is a valid document with AT MOST ONE deviation (the single-node       *)
(* fault catalogue): the generator builds the damaged document directly, so     *)
(* positions are those of the damaged document, and records the target node.    *)
EXTENDS XsdBase, TLC, Json

ItemCfg == [flag : BOOLEAN, note : BOOLEAN, sub : 0..2]
ItemDevs == {"none", "badqty", "missingtitle", "missingqty", "extrachild", "extrafirst", "swap",
             "badid", "missingid", "bogusattr", "bogusontitle", "badflag",
             "badsubqty", "emptysub", "extrainsub", "textinitem", "unknownext", "badmemo",
             "baduc"}         \* a value of @uc that NO member type of the union can read
RootDevs == {"none", "extrainroot", "extrafirstinroot", "noitems", "bogusonroot",
             "laxok",        \* NOT a fault: the lax extension with a valid x:num inside the undeclared wrapper
             "badinlax"}     \* the same with an invalid x:num: the error belongs to that node

Node(p, name, decl, attrs, text) == [path |-> p, name |-> name, decl |-> decl, attrs |-> attrs, text |-> text]

(* children of an item, as descriptors <<name, decl, text>>, after the deviation *)
ItemKids(c, d) ==
  LET T == <<"title", "title", "ok">>
      Q == <<"qty", "item/qty", IF d = "badqty" THEN "bad" ELSE "ok">>
      N == IF c.note THEN <<<<"note", "note", "ok">>>> ELSE <<>>
      S == IF c.sub > 0 THEN <<<<"sub", "sub", "-">>>> ELSE <<>>
      Z == <<"zzz", "none", "-">>
      M == IF c.flag THEN <<<<"memo", "memo", IF d = "badmemo" THEN "bad" ELSE "ok">>>> ELSE <<>>
      E == IF c.note THEN <<<<"ext", "wild", "-">>>> ELSE <<>>        \* admitted by the strict wildcard
      U == IF d = "unknownext" THEN <<<<"unk", "none", "-">>>> ELSE <<>>   \* no declaration to be strict with
      base == CASE d = "missingtitle" -> <<Q>>
                [] d = "missingqty"   -> <<T>>
                [] d = "swap"         -> <<Q, T>>
                [] d = "extrafirst"   -> <<Z, T, Q>>
                [] OTHER              -> <<T, Q>>
  IN base \o N \o S \o M \o E \o U \o (IF d = "extrachild" THEN <<Z>> ELSE <<>>)

SubKids(c, d) ==
  LET n == IF d = "emptysub" THEN 0 ELSE c.sub
      qs == [i \in 1..n |-> <<"qty", "sub/qty", IF d = "badsubqty" /\ i = 1 THEN "bad" ELSE "ok">>]
  IN qs \o (IF d = "extrainsub" THEN <<<<"zzz", "none", "-">>>> ELSE <<>>)

ItemAttrs(c, d) ==
  (IF d = "missingid" THEN {} ELSE {<<"id", IF d = "badid" THEN "bad" ELSE "ok">>})
  \cup (IF c.flag \/ d = "badflag" THEN {<<"flag", IF d = "badflag" THEN "bad" ELSE "ok">>} ELSE {})
  \cup (IF d = "bogusattr" THEN {<<"bogus", "ok">>} ELSE {})
  \cup (IF c.note THEN {<<"ref", "ok">>} ELSE {})
  \cup (IF c.sub > 0 THEN {<<"uc", IF d = "baduc" THEN "bad" ELSE "ok">>} ELSE {})
  \cup (IF c.flag THEN {<<"up", "ok">>} ELSE {})

RECURSIVE SubNodes(_, _, _)
SubNodes(p, ks, i) == IF i > Len(ks) THEN <<>>
                      ELSE <<Node(Append(p, i), ks[i][1], ks[i][2], {}, ks[i][3])>> \o SubNodes(p, ks, i + 1)
RECURSIVE KidNodes(_, _, _, _, _)
KidNodes(p, ks, i, c, d) ==
  IF i > Len(ks) THEN <<>>
  ELSE LET q == Append(p, i)
           k == ks[i]
           me == Node(q, k[1], k[2],
                      IF k[1] = "title" /\ d = "bogusontitle" THEN {<<"bogus", "ok">>} ELSE {}, k[3])
       IN <<me>> \o (IF k[1] = "sub" THEN SubNodes(q, SubKids(c, d), 1) ELSE <<>>)
               \o KidNodes(p, ks, i + 1, c, d)
ItemNodes(p, c, d) ==
  <<Node(p, "item", "item", ItemAttrs(c, d), IF d = "textinitem" THEN "stray" ELSE "-")>>
  \o KidNodes(p, ItemKids(c, d), 1, c, d)

(* applicability: a deviation needs the thing it damages *)
Applicable(c, d) == CASE d \in {"badsubqty", "emptysub", "extrainsub", "baduc"} -> c.sub > 0
                      [] d = "badmemo" -> c.flag
                      [] d = "badflag" -> TRUE
                      [] OTHER -> TRUE

(* the damaged node *)
Index(ks, name) == CHOOSE i \in DOMAIN ks : ks[i][1] = name
ItemTarget(p, c, d) ==
  LET ks == ItemKids(c, d) IN
  CASE d = "badqty"       -> Append(p, Index(ks, "qty"))
    [] d \in {"extrachild", "extrafirst"} -> Append(p, Index(ks, "zzz"))
    [] d = "unknownext"   -> Append(p, Index(ks, "unk"))
    [] d = "badmemo"      -> Append(p, Index(ks, "memo"))
    [] d = "swap"         -> Append(p, Index(ks, "title"))
    [] d = "bogusontitle" -> Append(p, Index(ks, "title"))
    [] d = "badsubqty"    -> Append(Append(p, Index(ks, "sub")), 1)
    [] d = "emptysub"     -> Append(p, Index(ks, "sub"))
    [] d = "extrainsub"   -> Append(Append(p, Index(ks, "sub")), c.sub + 1)
    [] OTHER              -> p      \* missing children / attribute faults / stray text: the item itself

------------------------------------------------------------------------------
VARIABLES items,     \* configuration of each item
          fault,     \* [at |-> item index (0 = root), dev |-> deviation]
          fault2     \* a second deviation in ANOTHER place (only when Double; else "none")
CONSTANTS MaxItems,
          Double     \* TRUE: documents with two faults (used as pool documents: error ORDER matters)

RECURSIVE AllItems(_, _)
DevOf(i, f) == IF f.at = i THEN f.dev ELSE IF fault2.at = i THEN fault2.dev ELSE "none"
Shift(f) == IF f.at = 0 /\ f.dev = "extrafirstinroot" THEN 1 ELSE 0
AllItems(i, f) == IF i > Len(items) THEN <<>>
                  ELSE ItemNodes(<<i + Shift(f)>>, items[i], DevOf(i, f)) \o AllItems(i + 1, f)
Doc(f) ==
  LET n == IF f.at = 0 /\ f.dev = "noitems" THEN 0 ELSE Len(items)
      rootattrs == IF f.at = 0 /\ f.dev = "bogusonroot" THEN {<<"bogus", "ok">>} ELSE {}
  IN <<Node(<<>>, "lib", "lib", rootattrs, "-")>>
     \o (IF f.at = 0 /\ f.dev = "extrafirstinroot" THEN <<Node(<<1>>, "zzz", "none", {}, "-")>> ELSE <<>>)
     \o (IF n = 0 THEN <<>> ELSE AllItems(1, f))
     \o (IF f.at = 0 /\ f.dev = "extrainroot" THEN <<Node(<<Len(items) + 1>>, "zzz", "none", {}, "-")>> ELSE <<>>)
     \o (IF f.at = 0 /\ f.dev \in {"laxok", "badinlax"}
           THEN <<Node(<<Len(items) + 1>>, "wrap", "wild", {}, "-"),
                  Node(<<Len(items) + 1, 1>>, "num", "wild", {}, IF f.dev = "badinlax" THEN "bad" ELSE "ok")>>
           ELSE <<>>)
IsFault(f) == f.dev \notin {"none", "laxok"}
Target(f) == IF ~IsFault(f) THEN <<>>
             ELSE IF f.at = 0 THEN (IF f.dev = "extrainroot" THEN <<Len(items) + 1>>
                                    ELSE IF f.dev = "badinlax" THEN <<Len(items) + 1, 1>>
                                    ELSE IF f.dev = "extrafirstinroot" THEN <<1>> ELSE <<>>)
             ELSE ItemTarget(<<f.at + Shift(fault)>>, items[f.at], f.dev)

IsPrefix(a, b) == Len(a) <= Len(b) /\ SubSeq(b, 1, Len(a)) = a
Parent(p) == IF p = <<>> THEN <<>> ELSE SubSeq(p, 1, Len(p) - 1)
Near(f)    == {Target(f), Parent(Target(f))}
InAllowed(f, p) == IsPrefix(p, Target(f)) \/ IsPrefix(Target(f), p)

Init == /\ items \in UNION {[1..n -> ItemCfg] : n \in 1..MaxItems}
        /\ fault \in {[at |-> 0, dev |-> d] : d \in RootDevs}
                     \cup {[at |-> i, dev |-> d] : i \in 1..MaxItems, d \in ItemDevs \ {"none"}}
        /\ (fault.at = 0 \/ (fault.at <= Len(items) /\ Applicable(items[fault.at], fault.dev)))
        /\ IF Double
             THEN /\ fault2 \in {[at |-> i, dev |-> d] : i \in 1..MaxItems, d \in ItemDevs \ {"none"}}
                  /\ IsFault(fault) /\ fault.dev # "noitems" /\ fault2.at # fault.at
                  /\ fault2.at <= Len(items) /\ Applicable(items[fault2.at], fault2.dev)
             ELSE fault2 = [at |-> 0, dev |-> "none"]
Next == FALSE /\ UNCHANGED <<items, fault, fault2>>
Spec == Init /\ [][Next]_<<items, fault, fault2>>

(* laws *)
TargetExists == ~IsFault(fault) \/ fault.dev \in {"noitems", "bogusonroot"}
                  \/ LET D == Doc(fault) T == Target(fault) IN \E i \in DOMAIN D : D[i].path = T
PathsUnique == LET D == Doc(fault) IN
                 Cardinality({D[i].path : i \in DOMAIN D}) = Len(D)

Emit == PrintT(ToJson([nodes |-> Doc(fault), fault |-> fault, fault2 |-> fault2, valid |-> ~IsFault(fault),
                       target |-> Target(fault), near |-> Near(fault)]))
=============================================================================
