--------------------------- MODULE AttrRestriction ---------------------------
(* C14 (attribute part): a complex type R derived by restriction from B.  B has  *)
(* the attribute uses bd0 (unqualified x), bdT (t:y) and the wildcard bw; R       *)
(* redeclares rd0, rdT ("none" = not redeclared: the base use is inherited) and   *)
(* states its own wildcard rw (an attribute wildcard is NOT inherited by a        *)
(* restriction).  The effective attribute uses of R:                              *)
(*    Eff(b, r) == IF r = NoDecl THEN b ELSE r                                    *)
(* The property: whenever the schema is accepted, every attribute set valid for   *)
(* R is valid for B.  Included is decided over the whole instance space of         *)
(* AttrDefs.tla; a shortest counterexample instance is emitted as witness.       *)
EXTENDS AttrDefs

CONSTANTS WildSet, DeclTSet          \* bounds: wildcards explored, declarations explored for t:y

Eff(b, r) == IF r = NoDecl THEN b ELSE r
ValidR(bd0, bdT, rd0, rdT, rw, i) == ValidAttrs(Eff(bd0, rd0), Eff(bdT, rdT), rw, i)
Bad(bd0, bdT, bw, rd0, rdT, rw) ==
   {i \in Inst : ValidR(bd0, bdT, rd0, rdT, rw, i) /\ ~ValidAttrs(bd0, bdT, bw, i)}
Size(i) == Cardinality({n \in AttrNames : i[n] # "absent"})
Witness(S) == CHOOSE i \in S : \A j \in S : Size(i) <= Size(j)

(* laws: the identity restriction is included; tightening a use or dropping the    *)
(* wildcard is included; what XSD calls a valid restriction of a use is included    *)
Tighter(b, r) == \/ r = NoDecl \/ r = b
                 \/ (b.use = "optional" /\ r.use = "required" /\ (b.vc = "fixed" => r.vc = "fixed"))
                 \/ (b.use = "optional" /\ r.use = "optional" /\ b.vc # "fixed" /\ r.vc \in {"fixed", "default", "none"})
                 \/ (b.use = "required" /\ r.use = "required" /\ b.vc = "none" /\ r.vc = "fixed")
LawTighterIncluded ==
  \A b0 \in Decl \ {NoDecl} : \A r0 \in Decl : \A ww \in WildSet :
     Tighter(b0, r0) /\ b0.use # "prohibited"
        => Bad(b0, NoDecl, ww, r0, NoDecl, ww) = {} /\ Bad(b0, NoDecl, ww, r0, NoDecl, NoWild) = {}
(* prohibiting an optional attribute narrows only if the restriction's own wildcard does not  *)
(* let the name back in: with the wildcard kept, the attribute returns unconstrained          *)
LawProhibitNeedsNoWildcard ==
  /\ Bad([use |-> "optional", vc |-> "none"], NoDecl, [c |-> "any", pc |-> "skip"],
          [use |-> "prohibited", vc |-> "none"], NoDecl, [c |-> "any", pc |-> "skip"]) # {}
  /\ \A ww \in WildSet : Bad([use |-> "optional", vc |-> "none"], NoDecl, ww,
                              [use |-> "prohibited", vc |-> "none"], NoDecl, NoWild) = {}
ASSUME LawProhibitNeedsNoWildcard
ASSUME LawTighterIncluded

VARIABLES bd0, bdT, bw, rd0, rdT, rw
rvars == <<bd0, bdT, bw, rd0, rdT, rw>>
RInit == /\ bd0 \in Decl /\ rd0 \in Decl /\ bdT \in DeclTSet /\ rdT \in DeclTSet
         /\ bw \in WildSet /\ rw \in WildSet
RNext == FALSE /\ UNCHANGED rvars
RSpecA == RInit /\ [][RNext]_rvars
REmit == LET bad == Bad(bd0, bdT, bw, rd0, rdT, rw) IN
         PrintT(ToJson([bd0 |-> bd0, bdT |-> bdT, bw |-> bw, rd0 |-> rd0, rdT |-> rdT, rw |-> rw,
                        included |-> bad = {},
                        witness |-> IF bad = {} THEN [n0 |-> "-", nT |-> "-", nA |-> "-", nF |-> "-", nU |-> "-"]
                                    ELSE Witness(bad),
                        bad |-> bad]))
=============================================================================
