------------------------------ MODULE Converters ------------------------------
(* C05: decode / encode round trip and soundness of strict encoding.              *)
(*                                                                              *)
(* The schema of this module (rendered by the harness):                           *)
(*   doc   := rec+                                                                *)
(*   rec   := @id:int (required) @flag:boolean? @ucode:code? @ver:int fixed 1 ?    *)
(*            @kws: list of AT LEAST TWO name tokens ? (ver and kws accompany flag), *)
(*            fx:int fixed 1 ? (after name; accompanies                             *)
(*            price)                                                              *)
(*            name:string, tags:list of AT LEAST TWO ints {0,2}, code?, opt?,      *)
(*            mark?, alt?, price?, para?, (a:int | b:string)*,                     *)
(*            (n:int?, l:int?)*  - a repeated group of optional particles: any       *)
(*            sequence of n and l -, t:int?                                         *)
(*   alt   := @kind:boolean (required); XSD 1.1: the type alternative             *)
(*            test="@kind = 'true'" requires one child x:string, otherwise no      *)
(*            content (documents with alt "full" exist for the 1.1 schema only)    *)
(*   code  := union(int, string) restricted by pattern [0-9]{3}|[a-z]{2,5}          *)
(*   opt   := nillable int                                                         *)
(*   mark  := empty content with @lvl:int?                                         *)
(*   price := decimal simple content with @cur:string (required)                  *)
(*   para  := mixed content: text, (em:string)*                                   *)
(* A document is a flat node list [path, name, attrs, text] (as in Validator.tla);  *)
(* text is a value class: "-" none, "s" a string, "i" an int, "d" a decimal,        *)
(* "l" a list of ints, "m" mixed text, "x" something that is not a number,          *)
(* "u3" three digits, "ua" two to five lower-case letters (the two branches of the   *)
(* pattern of `code`); attribute value classes "i", "bool", "s", "u3", "ua", and for  *)
(* xsi:nil "t" / "f".                                                              *)
(*                                                                              *)
(* Valid(nodes) is the declarative validity of such a tree: it judges what          *)
(* encode() returns (the implementation's own validator is not the judge).         *)
(* The generator enumerates valid documents; `contiguous` tells whether the         *)
(* same-named children of every element are contiguous (the conventions that key    *)
(* children by name - default, BadgerFish, GData - are lossless only then).         *)
EXTENDS XsdBase, TLC, Json, IOUtils

------------------------------------------------------------------------------
(* validity of a tree given as flat node list *)
KidsOf(ns, p) == LET idx == {i \in DOMAIN ns : Len(ns[i].path) = Len(p) + 1
                                                /\ SubSeq(ns[i].path, 1, Len(p)) = p}
                 IN [k \in 1..Cardinality(idx) |->
                       ns[CHOOSE i \in idx : Cardinality({j \in idx : j < i}) = k - 1]]
NamesOf(ks) == [i \in DOMAIN ks |-> ks[i].name]
AttrNames(n) == {a[1] : a \in n.attrs}
AttrVal(n, a) == (CHOOSE x \in n.attrs : x[1] = a)[2]
NoKids(ns, n) == KidsOf(ns, n.path) = <<>>

(* rec content: name, tags{0,2}, code?, opt?, mark?, price?, para?, (a|b)* *)
RECURSIVE AllAB(_)
AllAB(w) == w = <<>> \/ (Head(w) \in {"a", "b"} /\ AllAB(Tail(w)))
Opt(w, x) == IF w # <<>> /\ Head(w) = x THEN Tail(w) ELSE w
RECURSIVE DropIn(_, _)
DropIn(w, S) == IF w # <<>> /\ Head(w) \in S THEN DropIn(Tail(w), S) ELSE w
RecContentOK(w) == /\ w # <<>> /\ Head(w) = "name"
                   /\ LET r == DropIn(DropIn(Opt(Opt(Opt(Opt(Opt(Opt(Opt(Opt(Opt(Tail(w), "fx"), "tags"), "tags"), "code"),
                                                   "opt"), "mark"), "alt"), "price"), "para"), {"a", "b"}), {"n", "l"})
                      IN r = <<>> \/ r = <<"t">>

NodeOK(ns, n) ==
  CASE n.name = "doc"  -> /\ n.attrs = {} /\ n.text = "-"
                          /\ LET w == NamesOf(KidsOf(ns, n.path)) IN
                               w # <<>> /\ \A i \in DOMAIN w : w[i] = "rec"
    [] n.name = "rec"  -> /\ AttrNames(n) \subseteq {"id", "flag", "ucode", "ver", "kws"} /\ "id" \in AttrNames(n)
                          /\ ("kws" \in AttrNames(n) => AttrVal(n, "kws") = "k2")      \* "k2": two or more tokens
                          /\ ("ver" \in AttrNames(n) => AttrVal(n, "ver") = "f1")      \* the fixed value, in value space
                          /\ AttrVal(n, "id") = "i"
                          /\ ("flag" \in AttrNames(n) => AttrVal(n, "flag") = "bool")
                          /\ ("ucode" \in AttrNames(n) => AttrVal(n, "ucode") \in {"u3", "ua"})
                          /\ n.text = "-" /\ RecContentOK(NamesOf(KidsOf(ns, n.path)))
    [] n.name = "name" -> n.attrs = {} /\ n.text \in {"s", "i", "d", "x", "-"} /\ NoKids(ns, n)
    [] n.name = "tags" -> n.attrs = {} /\ n.text = "l" /\ NoKids(ns, n)      \* "l": two or more ints (minLength 2)
    [] n.name \in {"n", "l", "t"} -> n.attrs = {} /\ n.text = "i" /\ NoKids(ns, n)
    [] n.name = "fx"   -> n.attrs = {} /\ n.text \in {"f1", "-"} /\ NoKids(ns, n)     \* fixed 1; empty takes the fixed value
    [] n.name = "code" -> n.attrs = {} /\ n.text \in {"u3", "ua"} /\ NoKids(ns, n)
    [] n.name = "opt"  -> /\ AttrNames(n) \subseteq {"nil"} /\ NoKids(ns, n)
                          /\ IF "nil" \in AttrNames(n) /\ AttrVal(n, "nil") = "t" THEN n.text = "-"
                             ELSE ("nil" \in AttrNames(n) => AttrVal(n, "nil") = "f") /\ n.text \in {"i", "u3"}
    [] n.name = "mark" -> /\ AttrNames(n) \subseteq {"lvl"} /\ n.text = "-" /\ NoKids(ns, n)
                          /\ ("lvl" \in AttrNames(n) => AttrVal(n, "lvl") = "i")
    [] n.name = "alt"  -> /\ AttrNames(n) = {"kind"} /\ AttrVal(n, "kind") \in {"bool", "boolF"} /\ n.text = "-"
                          /\ LET ks == KidsOf(ns, n.path) IN
                               IF AttrVal(n, "kind") = "bool" THEN Len(ks) = 1 /\ ks[1].name = "x" ELSE ks = <<>>
    [] n.name = "x"    -> n.attrs = {} /\ n.text \in {"s", "i", "d", "x", "-"} /\ NoKids(ns, n)
    [] n.name = "price" -> /\ AttrNames(n) = {"cur"} /\ n.text \in {"d", "i"} /\ NoKids(ns, n)
    [] n.name = "para" -> /\ n.attrs = {} /\ \A k \in DOMAIN KidsOf(ns, n.path) : KidsOf(ns, n.path)[k].name = "em"
    [] n.name = "em"   -> n.attrs = {} /\ NoKids(ns, n)
    [] n.name = "a"    -> n.attrs = {} /\ n.text = "i" /\ NoKids(ns, n)
    [] n.name = "b"    -> n.attrs = {} /\ n.text \in {"s", "i", "d", "x", "-"} /\ NoKids(ns, n)
    [] OTHER -> FALSE
Valid(ns) == /\ ns # <<>> /\ ns[1].path = <<>> /\ ns[1].name = "doc"
             /\ \A i \in DOMAIN ns : NodeOK(ns, ns[i])
             /\ \A i \in DOMAIN ns : i = 1 \/ ns[i].path # <<>>

------------------------------------------------------------------------------
(* generator of valid documents *)
Node(p, name, attrs, text) == [path |-> p, name |-> name, attrs |-> attrs, text |-> text]
RecCfg == [flag : BOOLEAN, tags : 0..2, code : {"-", "u3", "ua"}, ucode : {"-", "u3", "ua"},
           opt : {"-", "i", "nil"}, mark : {"-", "plain", "lvl"}, alt : {"-", "plain", "full"},
           price : BOOLEAN, para : 0..2,
           ab : {<<>>, <<"a">>, <<"b">>, <<"a", "a">>, <<"a", "b">>, <<"b", "a">>, <<"a", "b", "a">>,
                 <<"b", "a", "b">>, <<"a", "a", "b">>},
           nl : {<<>>, <<"l", "l", "l", "l", "t">>, <<"n", "l", "t">>, <<"n", "n", "l", "l">>, <<"l", "n", "l">>}]
RECURSIVE Seq2Nodes(_, _, _)
Seq2Nodes(p, ks, i) == IF i > Len(ks) THEN <<>> ELSE
   <<Node(Append(p, i), ks[i][1], ks[i][2], ks[i][3])>>
   \o (IF ks[i][1] = "para" THEN [k \in 1..ks[i][4] |-> Node(Append(Append(p, i), k), "em", {}, "s")]
       ELSE IF ks[i][1] = "alt" THEN [k \in 1..ks[i][4] |-> Node(Append(Append(p, i), k), "x", {}, "s")] ELSE <<>>)
   \o Seq2Nodes(p, ks, i + 1)
RecKids(c) == <<<<"name", {}, "s", 0>>>>
              \o (IF c.price THEN <<<<"fx", {}, "f1", 0>>>> ELSE <<>>)
              \o [i \in 1..c.tags |-> <<"tags", {}, "l", 0>>]
              \o (IF c.code # "-" THEN <<<<"code", {}, c.code, 0>>>> ELSE <<>>)
              \o (CASE c.opt = "-" -> <<>>
                    [] c.opt = "i" -> <<<<"opt", {}, "i", 0>>>>
                    [] c.opt = "nil" -> <<<<"opt", {<<"nil", "t">>}, "-", 0>>>>)
              \o (CASE c.mark = "-" -> <<>>
                    [] c.mark = "plain" -> <<<<"mark", {}, "-", 0>>>>
                    [] c.mark = "lvl" -> <<<<"mark", {<<"lvl", "i">>}, "-", 0>>>>)
              \o (CASE c.alt = "-" -> <<>>
                    [] c.alt = "plain" -> <<<<"alt", {<<"kind", "boolF">>}, "-", 0>>>>
                    [] c.alt = "full" -> <<<<"alt", {<<"kind", "bool">>}, "-", 1>>>>)
              \o (IF c.price THEN <<<<"price", {<<"cur", "s">>}, "d", 0>>>> ELSE <<>>)
              \o (IF c.para > 0 THEN <<<<"para", {}, "m", c.para - 1>>>> ELSE <<>>)
              \o [i \in DOMAIN c.ab |-> <<c.ab[i], {}, IF c.ab[i] = "a" THEN "i" ELSE "s", 0>>]
              \o [i \in DOMAIN c.nl |-> <<c.nl[i], {}, "i", 0>>]
RecNodes(p, c) == <<Node(p, "rec", {<<"id", "i">>} \cup (IF c.flag THEN {<<"flag", "bool">>, <<"ver", "f1">>, <<"kws", "k2">>} ELSE {})
                                    \cup (IF c.ucode # "-" THEN {<<"ucode", c.ucode>>} ELSE {}), "-")>>
                  \o Seq2Nodes(p, RecKids(c), 1)
Contiguous(w) == \A i \in DOMAIN w : \A j \in DOMAIN w : (i < j /\ w[i] = w[j]) => \A k \in i..j : w[k] = w[i]

CONSTANTS MaxRecs
VARIABLES recs
(* the tail (n?, l?)*, t? is combined with the other optional parts only where it matters: with and without *)
(* the preceding (a | b)* children *)
RecOK(c) == c.nl = <<>> \/ (c.para = 0 /\ c.ab \in {<<>>, <<"a", "b">>})
Init == recs \in UNION {[1..n -> {c \in RecCfg : RecOK(c)}] : n \in 1..MaxRecs}
Next == FALSE /\ UNCHANGED recs
Spec == Init /\ [][Next]_recs
RECURSIVE AllRecs(_)
AllRecs(i) == IF i > Len(recs) THEN <<>> ELSE RecNodes(<<i>>, recs[i]) \o AllRecs(i + 1)
Doc == <<Node(<<>>, "doc", {}, "-")>> \o AllRecs(1)
GeneratedAreValid == Valid(Doc)
Emit == PrintT(ToJson([nodes |-> Doc,
                       contiguous |-> \A i \in DOMAIN recs : Contiguous(recs[i].ab) /\ Contiguous(recs[i].nl),
                       \* a name-keyed convention cannot tell in which order DIFFERENT names alternate
                       runs |-> \A i \in DOMAIN recs : recs[i].nl \in {<<"n", "n", "l", "l">>},
                       needs11 |-> \E i \in DOMAIN recs : recs[i].alt # "-"]))
=============================================================================
