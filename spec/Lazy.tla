--------------------------------- MODULE Lazy ---------------------------------
(* C06 / C11: streaming (lazy) processing of a document and the loaders' limits.   *)
(*                                                                               *)
(* A document SHAPE is the sequence of the depths of its elements in document      *)
(* order (root = 0, each next element at most one deeper than the previous one).   *)
(* The parser delivers start(i) / end(i) events.  A lazy resource of depth D       *)
(* hands out every element at depth D when its end event arrives (the subtree is   *)
(* complete) and then CLEARS it: its descendants are detached; with thin = TRUE    *)
(* the already handed-out preceding siblings along the ancestor chain are detached *)
(* too.  The in-scope namespace map of a node must stay available exactly as long  *)
(* as the node is attached.                                                        *)
(*                                                                               *)
(* Limits: a loader refuses a document DEEPER than MaxDepth (both loaders) or      *)
(* with MORE elements than MaxElems (full loading only); documents within the      *)
(* limits are processed.                                                           *)
EXTENDS XsdBase, TLC, Json

CONSTANTS D, Thin, MaxLen, MaxDepth, MaxElems, LazyMode

(* built by extension (the set of all functions 1..n -> 0..MaxLen is too large to filter) *)
RECURSIVE ShapesOfLen(_)
ShapesOfLen(n) == IF n = 1 THEN {<<0>>}
                  ELSE UNION {{Append(s, d) : d \in 1..(s[Len(s)] + 1)} : s \in ShapesOfLen(n - 1)}
Shapes == UNION {ShapesOfLen(n) : n \in 1..MaxLen}

VARIABLES shape, pos, open, handed, attached, nsmaps, maxdepth, count, outcome
vars == <<shape, pos, open, handed, attached, nsmaps, maxdepth, count, outcome>>
(* pos: next element whose start event is due; open: stack of started, not ended elements *)

SubtreeOf(s, i) == {j \in DOMAIN s : j >= i /\ \A k \in (i + 1)..j : s[k] > s[i]}
Parent(s, i) == IF s[i] = 0 THEN 0 ELSE CHOOSE p \in 1..(i - 1) : s[p] = s[i] - 1 /\ \A k \in (p + 1)..(i - 1) : s[k] >= s[i]
RECURSIVE Ancestors(_, _)
Ancestors(s, i) == IF Parent(s, i) = 0 THEN {} ELSE {Parent(s, i)} \cup Ancestors(s, Parent(s, i))
DepthDNodes(s) == {i \in DOMAIN s : s[i] = D}

Init == /\ shape \in Shapes /\ pos = 1 /\ open = <<>> /\ handed = <<>>
        /\ attached = {} /\ nsmaps = {} /\ maxdepth = 0 /\ count = 0 /\ outcome = "-"

Refuse == outcome' = "refused" /\ UNCHANGED <<shape, pos, open, handed, attached, nsmaps, maxdepth, count>>

(* end events of the elements that are closed before element `next` can start *)
(* (IF, not \/: inside an action TLC explores both disjuncts) *)
MustEnd(next) == open # <<>> /\ (IF next > Len(shape) THEN TRUE ELSE shape[next] <= shape[open[Len(open)]])

End == /\ outcome = "-" /\ MustEnd(pos)
       /\ LET i == open[Len(open)] IN
            /\ open' = SubSeq(open, 1, Len(open) - 1)
            /\ IF LazyMode /\ shape[i] = D
                 THEN /\ handed' = Append(handed, i)
                      /\ LET sub == SubtreeOf(shape, i) \ {i}
                             before == IF Thin
                                         THEN {j \in attached : j < i /\ j \notin Ancestors(shape, i)
                                                                /\ j \notin SubtreeOf(shape, i)}
                                         ELSE {}
                         IN /\ attached' = attached \ (sub \cup before)
                            /\ nsmaps' = nsmaps \ (sub \cup before)
                 ELSE UNCHANGED <<handed, attached, nsmaps>>
       /\ UNCHANGED <<shape, pos, maxdepth, count, outcome>>

Start == /\ outcome = "-" /\ pos <= Len(shape) /\ ~MustEnd(pos)
         /\ LET depth == shape[pos] + 1 IN        \* nesting depth counted in elements
              IF depth > MaxDepth \/ (~LazyMode /\ count + 1 > MaxElems)
                THEN Refuse
                ELSE /\ open' = Append(open, pos)
                     /\ attached' = attached \cup {pos}
                     /\ nsmaps' = nsmaps \cup {pos}
                     /\ maxdepth' = Max(maxdepth, depth)
                     /\ count' = count + 1
                     /\ pos' = pos + 1
                     /\ UNCHANGED <<shape, handed, outcome>>

Finish == /\ outcome = "-" /\ pos > Len(shape) /\ open = <<>>
          /\ outcome' = "processed"
          /\ UNCHANGED <<shape, pos, open, handed, attached, nsmaps, maxdepth, count>>

Next == Start \/ End \/ Finish
Spec == Init /\ [][Next]_vars

------------------------------------------------------------------------------
DepthOf(s) == CHOOSE m \in 0..MaxLen : (\E i \in DOMAIN s : s[i] + 1 = m) /\ \A i \in DOMAIN s : s[i] + 1 <= m
(* C11: refused exactly when a limit is exceeded *)
LimitsExact == outcome # "-" =>
                 (outcome = "refused") = (DepthOf(shape) > MaxDepth \/ (~LazyMode /\ Len(shape) > MaxElems))
(* C06: everything at depth D is handed out, once, in document order *)
HandedInOrder == outcome = "processed" /\ LazyMode =>
                   /\ {handed[k] : k \in DOMAIN handed} = DepthDNodes(shape)
                   /\ \A a \in DOMAIN handed : \A b \in DOMAIN handed : a < b => handed[a] < handed[b]
(* a node is complete when handed out: its whole subtree was still attached at that moment *)
CompleteWhenHanded == \A k \in DOMAIN handed :
                        SubtreeOf(shape, handed[k]) \cap {j \in DOMAIN shape : j >= pos} = {}
(* namespace maps are kept exactly for attached nodes *)
NsmapsWhileAttached == nsmaps = attached
(* open elements and their ancestors are never detached *)
OpenAttached == \A k \in DOMAIN open : open[k] \in attached

Emit == IF outcome # "-" THEN PrintT(ToJson([shape |-> shape, outcome |-> outcome, handed |-> handed]))
        ELSE TRUE
=============================================================================
