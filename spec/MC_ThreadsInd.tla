--------------------------- MODULE MC_ThreadsInd ---------------------------
(* Inductive invariant of spec/Threads.tla (intended protocol: Recheck = TRUE,   *)
(* FlagFirst = FALSE) for Apalache: the safety properties hold at ANY depth, not *)
(* only within TLC's exhaustive bound.  The actions are those of Threads.tla,    *)
(* restated with type annotations (Apalache needs them).                        *)
EXTENDS Naturals, FiniteSets

N == 4
Thr == 1..N

VARIABLES
  \* @type: Int -> Str;
  pc,
  \* @type: Bool;
  built,
  \* @type: Int;
  holder,
  \* @type: Str;
  maps,
  \* @type: Int;
  builds,
  \* @type: Int -> Str;
  saw

Init == /\ pc = [t \in Thr |-> "c1"] /\ built = FALSE /\ holder = 0
        /\ maps = "empty" /\ builds = 0 /\ saw = [t \in Thr |-> "-"]

C1(t) == /\ pc[t] = "c1"
         /\ pc' = [pc EXCEPT ![t] = IF built THEN "use" ELSE "aq"]
         /\ UNCHANGED <<built, holder, maps, builds, saw>>
Aq(t) == /\ pc[t] = "aq" /\ holder = 0
         /\ holder' = t /\ pc' = [pc EXCEPT ![t] = "c2"]
         /\ UNCHANGED <<built, maps, builds, saw>>
C2(t) == /\ pc[t] = "c2"
         /\ pc' = [pc EXCEPT ![t] = IF built THEN "rl" ELSE "b1"]
         /\ UNCHANGED <<built, holder, maps, builds, saw>>
B1(t) == /\ pc[t] = "b1"
         /\ maps' = "partial" /\ builds' = builds + 1
         /\ pc' = [pc EXCEPT ![t] = "b2"]
         /\ UNCHANGED <<built, holder, saw>>
B2(t) == /\ pc[t] = "b2"
         /\ maps' = "full" /\ pc' = [pc EXCEPT ![t] = "sf"]
         /\ UNCHANGED <<built, holder, builds, saw>>
Sf(t) == /\ pc[t] = "sf"
         /\ built' = TRUE /\ pc' = [pc EXCEPT ![t] = "rl"]
         /\ UNCHANGED <<holder, maps, builds, saw>>
Rl(t) == /\ pc[t] = "rl" /\ holder = t
         /\ holder' = 0 /\ pc' = [pc EXCEPT ![t] = "use"]
         /\ UNCHANGED <<built, maps, builds, saw>>
Use(t) == /\ pc[t] = "use"
          /\ saw' = [saw EXCEPT ![t] = maps] /\ pc' = [pc EXCEPT ![t] = "done"]
          /\ UNCHANGED <<built, holder, maps, builds>>
Next == \E t \in Thr : C1(t) \/ Aq(t) \/ C2(t) \/ B1(t) \/ B2(t) \/ Sf(t) \/ Rl(t) \/ Use(t)

Locked == {"c2", "b1", "b2", "sf", "rl"}
PCs == {"c1", "aq", "c2", "b1", "b2", "sf", "rl", "use", "done"}
TypeOK == /\ pc \in [Thr -> PCs] /\ built \in BOOLEAN /\ holder \in 0..N
          /\ maps \in {"empty", "partial", "full"} /\ builds \in 0..1
          /\ saw \in [Thr -> {"-", "empty", "partial", "full"}]

BuiltOnce == builds <= 1
NoPartialUse == \A t \in Thr : saw[t] \in {"-", "full"}
MutualExclusion == \A t \in Thr : pc[t] \in Locked => holder = t
FlagMeansFull == built => maps = "full"

IndInv ==
  /\ TypeOK
  /\ MutualExclusion
  /\ (holder # 0 => pc[holder] \in Locked)
  /\ (built => maps = "full" /\ builds = 1)
  /\ (maps = "empty" <=> builds = 0)
  /\ (maps = "partial" <=> \E t \in Thr : pc[t] = "b2")
  /\ (maps = "full" /\ ~built => \E t \in Thr : pc[t] = "sf")
  /\ \A t \in Thr :
       /\ (pc[t] = "b1" => ~built /\ builds = 0)
       /\ (pc[t] = "b2" => ~built /\ builds = 1)
       /\ (pc[t] = "sf" => ~built /\ maps = "full" /\ builds = 1)
       /\ (pc[t] \in {"rl", "use", "done"} => built)
       /\ saw[t] \in {"-", "full"}
       /\ (saw[t] # "-" => pc[t] = "done")

Safety == BuiltOnce /\ NoPartialUse /\ MutualExclusion /\ FlagMeansFull
IndInit == IndInv
=============================================================================
