INIT AInit
NEXT ANext
INVARIANT OnlyPermittedOpened
INVARIANT BlockedNotLoaded
INVARIANT NothingWithNone
INVARIANT SandboxRemoteBaseOpensNothing
CONSTRAINT AEmit
CHECK_DEADLOCK FALSE

