INIT AInit
NEXT ANext
INVARIANT OnlyPermittedOpened
INVARIANT BlockedNotLoaded
INVARIANT NothingWithNone
CONSTRAINT AEmit
CHECK_DEADLOCK FALSE

