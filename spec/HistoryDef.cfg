SPECIFICATION Spec
INVARIANT HistoryIndependent
CHECK_DEADLOCK FALSE
