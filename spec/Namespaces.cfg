SPECIFICATION Spec
INVARIANT MapIsScope
INVARIANT ReverseSound
INVARIANT ReverseTotal
INVARIANT StackShape
CONSTRAINT Emit
CHECK_DEADLOCK FALSE
