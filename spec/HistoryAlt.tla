------------------------------ MODULE HistoryAlt ------------------------------
(* C10, second scenario: per-declaration state that a call could leave behind    *)
(* where the answer depends on MORE than the declaration sees locally.           *)
(*                                                                            *)
(* XSD 1.1 type alternatives on element E (child of W): the tests read E's own   *)
(* attribute k and the attribute j INHERITED from W.  A document is              *)
(* [k, j, child]; the governing type is the first alternative whose test holds   *)
(* (Derivation.tla: Select), the document is valid iff its child is the one the  *)
(* selected type requires.                                                      *)
(*                                                                            *)
(* Variant "intended": the verdict is a function of the document; an aborted     *)
(*   call (the application's hook raises in the middle of E's content) leaves    *)
(*   nothing behind.                                                            *)
(* Variant "memo": the selected type is remembered per OWN attribute set of E -   *)
(*   a cache keyed too coarsely (the inherited attributes are not in the key).   *)
(* Variant "residue": an aborted call leaves the content model of the selected   *)
(*   type in the middle; the next call that uses that type starts there (and     *)
(*   rewinds it).                                                               *)
(* TLC refutes HistoryIndependent for "memo" and "residue" (2 calls); the replay *)
(* drives the enumerated histories through ONE schema object and requires the    *)
(* intended verdicts.                                                           *)
EXTENDS Naturals, Sequences, FiniteSets, TLC, Json

CONSTANTS Variant, MaxCalls, AltList       \* AltList: index into AltLists
AltLists == << <<<<"ja", "TA">>, <<"b", "TB">>, <<"default", "TC">>>>,
               <<<<"b", "TB">>, <<"jb", "TA">>>>,
               <<<<"nj", "TA">>, <<"b", "TB">>, <<"default", "TC">>>> >>
Alts == AltLists[AltList]
Docs == [k : {"absent", "b"}, j : {"absent", "a", "b"}, child : {"none", "x", "y"}]
Ops == {"is_valid", "iter_errors", "decode_lax", "abort"}
Types == {"T", "TA", "TB", "TC"}

Holds(test, d) == CASE test = "default" -> TRUE
                    [] test = "b"  -> d.k = "b"
                    [] test = "ja" -> d.j = "a"
                    [] test = "jb" -> d.j = "b"
                    [] test = "nj" -> d.j = "absent"
RECURSIVE Select(_, _)
Select(alts, d) == IF alts = <<>> THEN "T"
                   ELSE IF Holds(Head(alts)[1], d) THEN Head(alts)[2] ELSE Select(Tail(alts), d)
ChildOf(t) == CASE t = "T" -> "none" [] t = "TA" -> "x" [] t = "TB" -> "y" [] t = "TC" -> "z"
Invalid(t, d) == d.child # ChildOf(t)
Intended(d) == Invalid(Select(Alts, d), d)

VARIABLES memo,      \* own attribute k -> remembered type ("-" = nothing yet)
          dirty,     \* types whose content model was left in the middle
          hist
vars == <<memo, dirty, hist>>
Init == memo = [k \in {"absent", "b"} |-> "-"] /\ dirty = {} /\ hist = <<>>

TypeUsed(d) == IF Variant = "memo" /\ memo[d.k] # "-" THEN memo[d.k] ELSE Select(Alts, d)
Call(op, d) ==
  LET t == TypeUsed(d)
      aborted == op = "abort" /\ d.child = ChildOf(t) /\ d.child # "none"   \* the hook raises inside the child
      inv == IF Variant = "residue" /\ t \in dirty THEN ~Invalid(t, d) ELSE Invalid(t, d)
  IN /\ Len(hist) < MaxCalls
     /\ hist' = Append(hist, [op |-> op, doc |-> d, aborted |-> aborted,
                              invalid |-> inv, fresh |-> Intended(d)])
     /\ memo' = IF Variant = "memo" THEN [memo EXCEPT ![d.k] = t] ELSE memo
     /\ dirty' = IF Variant = "residue" THEN (IF aborted THEN dirty \cup {t} ELSE dirty \ {t}) ELSE dirty
Next == \E op \in Ops : \E d \in Docs : Call(op, d)
Spec == Init /\ [][Next]_vars

(* an aborted call has no verdict; every other call answers like a fresh schema *)
HistoryIndependent == \A i \in DOMAIN hist : hist[i].aborted \/ hist[i].invalid = hist[i].fresh
Emit == IF Len(hist) = MaxCalls THEN PrintT(ToJson([hist |-> hist])) ELSE TRUE
=============================================================================
