--------------------------- MODULE ElemRestriction ---------------------------
(* C14 (element-declaration part): a complex type D derived by restriction from B, *)
(* both with the content model (x), where the local element x is declared with the *)
(* properties  type, fixed, default, nillable  in B and re-declared in D.          *)
(* The property: whenever the schema is accepted, every x valid for D is valid for *)
(* B.  Inclusion is decided over the whole instance space (text x nil); a          *)
(* counterexample instance is emitted as witness.                                  *)
(*                                                                                 *)
(* Types: "string" (any text), "AB" (string restricted by the enumeration A, B),   *)
(* "A1" (AB restricted to A), "int" (not related to the others).                   *)
EXTENDS Naturals, FiniteSets, TLC, Json

Types  == {"string", "AB", "A1", "int"}
Texts  == {"", "A", "B", "C", "7"}
TextOK(t, x) == CASE t = "string" -> TRUE
                  [] t = "AB" -> x \in {"A", "B"}
                  [] t = "A1" -> x = "A"
                  [] OTHER -> x = "7"
(* Type Derivation OK (restriction), reflexive *)
Derived(d, b) == d = b \/ (b = "string" /\ d \in {"AB", "A1"}) \/ (b = "AB" /\ d = "A1")

VCs == {"none", "fixA", "fixB", "defA", "fix7"}
VcText(vc) == CASE vc = "fixA" -> "A" [] vc = "fixB" -> "B" [] vc = "defA" -> "A" [] OTHER -> "7"
IsFixed(vc) == vc \in {"fixA", "fixB", "fix7"}
Cfgs == {c \in [type : Types, vc : VCs, nillable : BOOLEAN] :
           c.vc # "none" => TextOK(c.type, VcText(c.vc))}        \* a value constraint must be valid for the type
Insts == [text : Texts, nil : BOOLEAN]

(* Validation Rule: Element Locally Valid (Element), clauses 3 (nil) and 5 (value constraints) *)
Valid(c, i) ==
  IF i.nil THEN c.nillable /\ i.text = "" /\ ~IsFixed(c.vc)
  ELSE IF i.text = "" /\ c.vc # "none" THEN TRUE              \* an empty element takes the default / fixed value
  ELSE TextOK(c.type, i.text) /\ (IsFixed(c.vc) => i.text = VcText(c.vc))

(* The Recommendation's own gap, kept out of the judged space: a restriction may ADD a default or  *)
(* fixed value (NameAndTypeOK does not forbid it), and then the EMPTY element is filled in for D    *)
(* while B may refuse the empty text (LawGap below exhibits it).  Such instances are not judged.    *)
Filled(d, i) == ~i.nil /\ i.text = "" /\ d.vc # "none"
Bad(b, d) == {i \in Insts : Valid(d, i) /\ ~Valid(b, i) /\ ~Filled(d, i)}
Included(b, d) == Bad(b, d) = {}

(* What the Recommendation lets through (Particle Restriction OK, Elt:Elt - NameAndTypeOK):   *)
(* nillable only if the base is, a fixed base value kept, the type derived.                   *)
NameAndTypeOK(b, d) == /\ (d.nillable => b.nillable)
                       /\ (IsFixed(b.vc) => d.vc = b.vc)
                       /\ Derived(d.type, b.type)
(* laws checked by TLC before anything is replayed *)
LawIdentity == \A c \in Cfgs : Included(c, c)
LawRecommendationSound == \A b \in Cfgs : \A d \in Cfgs : NameAndTypeOK(b, d) => Included(b, d)
LawDroppedFixedWidens ==
  \A b \in Cfgs : \A d \in Cfgs :
     IsFixed(b.vc) /\ ~IsFixed(d.vc) /\ d.type = b.type /\ b.type \in {"string", "AB"} /\ d.nillable = b.nillable
        => ~Included(b, d)
LawNillableWidens == \A b \in Cfgs : \A d \in Cfgs :
     ~b.nillable /\ d.nillable /\ ~IsFixed(d.vc) => ~Included(b, d)
LawGap == \E b \in Cfgs : \E d \in Cfgs : \E i \in Insts :
            NameAndTypeOK(b, d) /\ Filled(d, i) /\ Valid(d, i) /\ ~Valid(b, i)
ASSUME LawGap
ASSUME LawIdentity
ASSUME LawRecommendationSound
ASSUME LawDroppedFixedWidens
ASSUME LawNillableWidens

VARIABLES b, d
evars == <<b, d>>
EInit == b \in Cfgs /\ d \in Cfgs
ENext == FALSE /\ UNCHANGED evars
ESpec == EInit /\ [][ENext]_evars
NoInst == [text |-> "-", nil |-> FALSE]
EEmit == LET bad == Bad(b, d) IN
         PrintT(ToJson([b |-> b, d |-> d, included |-> bad = {}, ok_per_rec |-> NameAndTypeOK(b, d),
                        bad |-> bad]))
=============================================================================
